#!/bin/sh
# run the repository's own suite (guard off); prints the pytest exit status
cd "${1:-/repo}" && /venv/bin/python -m pytest -q -p no:cacheprovider --timeout=900 -q ${2:-} 2>&1 | tail -3
echo "pytest-exit=$?"
