#!/bin/sh
# run the repository's own suite (guard off); prints the pytest exit status
cd "${1:-/repo}" || exit 2
out=$(/venv/bin/python -m pytest -q -p no:cacheprovider --timeout=900 -q ${2:-} 2>&1); rc=$?
echo "$out" | tail -3
echo "pytest-exit=$rc"
exit $rc
