#!/bin/sh
# Soundness side of the kill matrix: a BEHAVIOUR-PRESERVING change must leave every check at exit 0.
#   tools/neutralcheck.sh <patch.diff> [seeds]
# prints one line per check and seed; anything but exit=0 is a false alarm (or the change was not neutral after all).
cd "$(dirname "$0")/.." || exit 2
PATCH=$1
SEEDS=${2:-0}
ALL=C01,C02,C03,C04,C05,C06,C07,C08,C09,C10,C11,C12,C13,C14,C15,C16,C17,C18,C19,C20
tools/killcheck.py "$PATCH" $ALL --seeds "$SEEDS" | grep "seed=\| x \|kind=\|PATCH-FAILED\|NOTE" | cut -c1-400
