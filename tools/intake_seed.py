#!/venv/bin/python -B
"""Confirm a sub-agent's seeded change in its scratch worktree and file it under /verif/seeded/<name>/.

    intake_seed.py <name> <worktree> <property> [<other properties to try>...]
Steps: patch.diff == git diff; full test suite passes with the change; demo fails with / passes without the
change; then the registered checks are run against a scratch copy with the patch (tools/killcheck.py)."""
import json
import os
import shutil
import subprocess
import sys

VERIF = os.path.dirname(os.path.dirname(os.path.abspath(__file__)))
name, wt, prop = sys.argv[1:4]
others = sys.argv[4:]


def sh(cmd, cwd=None, timeout=1800):
    p = subprocess.run(cmd, shell=True, cwd=cwd, capture_output=True, text=True, timeout=timeout)
    return p.returncode, (p.stdout + p.stderr)


seed = os.path.join(wt, "_seed")
rc, diff = sh("git diff -- torrentfile", wt)
patch = open(os.path.join(seed, "patch.diff")).read()
same = diff.strip() == patch.strip()
if not same:
    # trust the working tree
    with open(os.path.join(seed, "patch.diff"), "w") as fd:
        fd.write(diff)
ran = {}
rc_t, out_t = sh("bash -c '/venv/bin/python -m pytest -q -p no:cacheprovider --timeout=900 -q > /dev/shm/seedtest.log 2>&1; echo $?'", wt)
tests_rc = int(out_t.strip().splitlines()[-1])
ran["tests_with_change_exit"] = tests_rc
rc_d1, out_d1 = sh("/venv/bin/python _seed/demo.py", wt, 900)
ran["demo_with_change_exit"] = rc_d1
# (git stash is shared between worktrees of one repository: never use it here)
with open("/dev/shm/intake.diff", "w") as fd:
    fd.write(diff)
sh("git apply -R /dev/shm/intake.diff", wt)
rc_d0, out_d0 = sh("/venv/bin/python _seed/demo.py", wt, 900)
ran["demo_without_change_exit"] = rc_d0
sh("git apply /dev/shm/intake.diff", wt)
print(json.dumps(ran), "patch==diff:", same, "changed lines:", sum(1 for l in diff.splitlines() if l[:1] in "+-" and l[:3] not in ("+++", "---")))
ok = tests_rc == 0 and rc_d1 != 0 and rc_d0 == 0
if not ok:
    print("NOT CONFIRMED", out_d1[-500:], out_d0[-500:])
    sys.exit(1)
dst = os.path.join(VERIF, "seeded", name)
os.makedirs(dst, exist_ok=True)
for f in os.listdir(seed):
    if os.path.isfile(os.path.join(seed, f)):
        shutil.copy(os.path.join(seed, f), os.path.join(dst, f))
kc, kout = sh(f"{VERIF}/tools/killcheck.py {dst}/patch.diff {','.join([prop] + others)} --seeds 0,1", VERIF, 3600)
print(kout)
verdicts = {}
for l in kout.splitlines():
    if l.endswith(": KILLED") or l.endswith(": SURVIVED"):
        verdicts[l.split(":")[0]] = l.split(": ")[1]
meta = {"name": name, "breaks_property": prop, "source": "independent sub-agent given only the property text and a scratch worktree",
        "confirmed": ran, "confirmation_commands": [
            "cd <worktree> && /venv/bin/python -m pytest -q -p no:cacheprovider --timeout=900 -q   (exit 0 with the change)",
            "cd <worktree> && /venv/bin/python _seed/demo.py   (exit 1 with the change, exit 0 after git stash)",
            f"tools/killcheck.py seeded/{name}/patch.diff {','.join([prop] + others)} --seeds 0,1"],
        "needs_to_manifest": "see notes.md (tools/killtable.py copies summary.txt here once it exists)", "quick_tier_verdicts_at_intake": verdicts}
with open(os.path.join(dst, "meta.json"), "w") as fd:
    json.dump(meta, fd, indent=1)
print("filed under", dst, verdicts)
