#!/bin/sh
# tools/neutralsome.sh "N3 V14 ..." [seeds] : neutralcheck for the named patches only
cd "$(dirname "$0")/.." || exit 2
for n in $1; do echo "=== $n"; tools/neutralcheck.sh neutral/$n/patch.diff "${2:-0}" | grep -v "exit=0" | head -20; done; echo "=== done"
