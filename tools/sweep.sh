#!/bin/sh
# Sweep every registered check over several seeds (and optionally both tiers) from fresh processes on the
# unchanged tree; anything but exit 0 is printed.  Evidence goes to a scratch directory (VERIF_OUT).
#   tools/sweep.sh "1 2 3" "quick thorough"
cd "$(dirname "$0")/.." || exit 2
SEEDS=${1:-"1 2 3"}
TIERS=${2:-"quick"}
OUT=$(mktemp -d /dev/shm/vf-sweep-XXXXXX)
bad=0
for tier in $TIERS; do
  for s in $SEEDS; do
    for i in 01 02 03 04 05 06 07 08 09 10 11 12 13 14 15 16 17 18 19 20; do
      out=$(VERIF_OUT=$OUT VERIF_SEED=$s PYTHONHASHSEED=0 /venv/bin/python -B vf/run.py C$i --tier $tier 2>&1); rc=$?
      last=$(echo "$out" | tail -1)
      if [ $rc -ne 0 ]; then bad=1; echo "!! C$i tier=$tier seed=$s exit=$rc"; echo "$out" | grep -v "^VIOLATION" | tail -12 | cut -c1-600; else echo "ok C$i tier=$tier seed=$s :: $last"; fi
    done
  done
done
rm -rf "$OUT"
exit $bad
