#!/bin/sh
# every behaviour-preserving / alternative implementation under neutral/ against all twenty quick checks (seed 0)
cd "$(dirname "$0")/.." || exit 2
for d in neutral/*/; do
  n=$(basename "$d")
  echo "=== $n"
  tools/neutralcheck.sh "$d/patch.diff" "${1:-0}" | grep -v "exit=0" | head -20
done
echo "=== done"
