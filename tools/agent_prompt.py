#!/venv/bin/python -B
"""Prints the prompt given to an independent sub-agent that seeds a property-breaking change."""
import json, sys
pid, wt = sys.argv[1], sys.argv[2]
hint = sys.argv[3] if len(sys.argv) > 3 else ""
for l in open('/verif/properties.jsonl'):
    p = json.loads(l)
    if p['id'] == pid:
        break
print(f"""You are helping to evaluate a verification setup for the Python project alexpdev/torrentfile (a CLI and library that creates, edits, rechecks and rebuilds BitTorrent v1/v2/hybrid metafiles). Work ONLY inside your own scratch git worktree at {wt} (it is a detached checkout of the project). Never read or modify /repo or /verif, and do not look for other copies of checks or verification code anywhere on this machine. There is no network.

Here is a semantic property the project is supposed to satisfy:

  Title: {p['title']}
  Statement: {p['statement']}
  Quantified over: {p['quantifier']['text']}

Your task: make ONE realistic change to the project's source under {wt}/torrentfile/ (the kind of regression a maintainer could plausibly introduce during a refactor, optimisation or 'cleanup' - not sabotage that is obviously wrong at a glance) such that:
  1. the package still imports and the project's own test suite still passes completely with your change:
       cd {wt} && /venv/bin/python -m pytest -q -p no:cacheprovider --timeout=900 -x -q
     (run it from inside the worktree so that `import torrentfile` resolves to {wt}/torrentfile - verify with /venv/bin/python -c "import torrentfile; print(torrentfile.__file__)" run from {wt}; it takes about 35 s);
  2. the property above is violated by the changed code;
  3. the violation needs something SPECIFIC to manifest - a particular kind of input (sizes relative to block/piece boundaries, empty files, a certain option combination or order), a multi-step sequence of operations, a fault or crash at a particular point, an unusual but valid metafile, or two cooperating code sites that each look fine alone - NOT something that ordinary use or the most obvious smoke test would expose at once. {hint}

Deliverables, all written into the directory {wt}/_seed/ (create it):
  - patch.diff : output of `git -C {wt} diff -- torrentfile` (only source changes under torrentfile/; do not change tests)
  - demo.py    : a small self-contained program, run as `cd {wt} && /venv/bin/python _seed/demo.py`, that exits 0 and prints PASS on the ORIGINAL code (to confirm, save your diff to a file and use `git apply -R file` / `git apply file`; NEVER use `git stash` - the stash is shared with other worktrees of the same repository that other people are using right now) and exits 1 and prints FAIL with your change applied. It must build its own temporary inputs under a fresh tempfile.mkdtemp() directory and clean up after itself. It should check the property directly (e.g. recompute hashes with hashlib), not just compare against a stored constant.
  - notes.md   : 10-20 lines: what you changed, why it is plausible, exactly what is needed for it to manifest, and the commands you ran (test suite result with the change; demo result with and without the change).

Before finishing: confirm the full test suite passes WITH the change, demo.py fails WITH the change and passes WITHOUT it, and leave the worktree with the change applied (uncommitted). Keep the change small (ideally under 15 changed lines). Reply with a brief summary (what you changed, how it manifests, confirmation of the three checks).""")
