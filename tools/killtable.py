#!/venv/bin/python -B
"""Re-runs every seeded change against the checks listed in its meta.json and prints a markdown table;
updates meta.json['quick_tier_verdicts_current']."""
import json
import os
import subprocess
import sys

VERIF = os.path.dirname(os.path.dirname(os.path.abspath(__file__)))
rows = []
for name in sorted(os.listdir(os.path.join(VERIF, "seeded"))):
    d = os.path.join(VERIF, "seeded", name)
    mp = os.path.join(d, "meta.json")
    if not os.path.exists(mp):
        continue
    meta = json.load(open(mp))
    props = list(meta.get("quick_tier_verdicts_at_intake", {meta["breaks_property"]: None}))
    if len(sys.argv) > 1 and name not in sys.argv[1:]:
        continue
    p = subprocess.run([os.path.join(VERIF, "tools", "killcheck.py"), os.path.join(d, "patch.diff"), ",".join(props),
                        "--seeds", "0,1"], capture_output=True, text=True)
    verdicts = {}
    for l in p.stdout.splitlines():
        if l.endswith(": KILLED") or l.endswith(": SURVIVED"):
            verdicts[l.split(":")[0]] = l.split(": ")[1]
    meta["quick_tier_verdicts_current"] = verdicts
    json.dump(meta, open(mp, "w"), indent=1)
    notes = ""
    try:
        notes = open(os.path.join(d, "summary.txt")).read().strip()
    except FileNotFoundError:
        pass
    if notes:
        meta["needs_to_manifest"] = notes + " (details: notes.md)"
        json.dump(meta, open(mp, "w"), indent=1)
    rows.append((name, meta["breaks_property"], notes, verdicts, meta.get("quick_tier_verdicts_at_intake", {})))
    print(f"| {name} | {meta['breaks_property']} | {notes} | " +
          ", ".join(f"{k}: {v.lower()}" + (" (intake: survived)" if meta.get('quick_tier_verdicts_at_intake', {}).get(k) == 'SURVIVED' and v == 'KILLED' else "")
                    for k, v in verdicts.items()) + " |", flush=True)
