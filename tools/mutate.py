#!/venv/bin/python -B
"""Systematic mutation run (kill matrix part 3).

For a seeded sample of first-order mutants of torrentfile/*.py (comparison / arithmetic / boolean operator swaps,
small integer constants +-1, statement deletion, break<->continue):
  1. copy tests/ + torrentfile/ to a scratch directory outside /repo and /verif and apply the mutation there;
  2. run the repository's own suite in the copy; a failing suite = "killed-by-suite" (not interesting here);
  3. otherwise run every registered quick check against the copy (VERIF_REPO) and record which report a VIOLATION.
Writes one JSON line per mutant to <out>/mutants.jsonl and a summary to <out>/summary.json; removes each copy.

    tools/mutate.py --n 240 --seed 0 --jobs 4 --out /dev/shm/mutation-run
"""
import argparse
import ast
import copy
import json
import os
import random
import shutil
import subprocess
import sys
import tempfile
from concurrent.futures import ThreadPoolExecutor

VERIF = os.path.dirname(os.path.dirname(os.path.abspath(__file__)))
REPO = "/repo"          # replaced in main() by a snapshot taken at the start of the run
FILES = ["hasher.py", "torrent.py", "recheck.py", "rebuild.py", "edit.py", "commands.py", "utils.py"]
ALL_PROPS = [f"C{i:02d}" for i in range(1, 21)]

CMP = {ast.Lt: ast.LtE, ast.LtE: ast.Lt, ast.Gt: ast.GtE, ast.GtE: ast.Gt, ast.Eq: ast.NotEq, ast.NotEq: ast.Eq,
       ast.In: ast.NotIn, ast.NotIn: ast.In}
BIN = {ast.Add: ast.Sub, ast.Sub: ast.Add, ast.Mult: ast.FloorDiv, ast.FloorDiv: ast.Mult, ast.Mod: ast.FloorDiv}


def sites(tree):
    """Yield (kind, node_index, variant) over a deterministic walk."""
    for idx, node in enumerate(ast.walk(tree)):
        if isinstance(node, ast.Compare):
            for k, op in enumerate(node.ops):
                if type(op) in CMP:
                    yield ("cmp", idx, k)
        elif isinstance(node, ast.BinOp) and type(node.op) in BIN:
            if isinstance(node.op, ast.Mod) and isinstance(node.left, ast.Constant) and isinstance(node.left.value, str):
                continue
            yield ("bin", idx, 0)
        elif isinstance(node, ast.BoolOp):
            yield ("bool", idx, 0)
        elif isinstance(node, ast.UnaryOp) and isinstance(node.op, ast.Not):
            yield ("not", idx, 0)
        elif isinstance(node, ast.Constant) and isinstance(node.value, int) and not isinstance(node.value, bool) \
                and (abs(node.value) <= 64 or node.value & (node.value - 1) == 0):
            yield ("const", idx, 1)
            yield ("const", idx, -1)
        elif isinstance(node, (ast.Break, ast.Continue)):
            yield ("loopctl", idx, 0)
        elif isinstance(node, (ast.AugAssign,)):
            yield ("delstmt", idx, 0)
        elif isinstance(node, ast.Expr) and isinstance(node.value, ast.Call) and \
                isinstance(node.value.func, ast.Attribute) and \
                node.value.func.attr in ("append", "extend", "update", "add", "close", "remove", "pop", "clear", "seek"):
            yield ("delstmt", idx, 0)


def apply(tree, kind, idx, variant):
    tree = copy.deepcopy(tree)
    parents = {}
    for p in ast.walk(tree):
        for ch in ast.iter_child_nodes(p):
            parents[ch] = p
    node = list(ast.walk(tree))[idx]
    desc = ""
    line = getattr(node, "lineno", None)
    if kind == "cmp":
        old = type(node.ops[variant]).__name__
        node.ops[variant] = CMP[type(node.ops[variant])]()
        desc = f"{old}->{type(node.ops[variant]).__name__}"
    elif kind == "bin":
        old = type(node.op).__name__
        node.op = BIN[type(node.op)]()
        desc = f"{old}->{type(node.op).__name__}"
    elif kind == "bool":
        old = type(node.op).__name__
        node.op = ast.Or() if isinstance(node.op, ast.And) else ast.And()
        desc = f"{old}->{type(node.op).__name__}"
    elif kind == "not":
        par = parents[node]
        for f, v in ast.iter_fields(par):
            if v is node:
                setattr(par, f, node.operand)
            elif isinstance(v, list) and node in v:
                v[v.index(node)] = node.operand
        desc = "drop-not"
    elif kind == "const":
        desc = f"{node.value}->{node.value + variant}"
        node.value = node.value + variant
    elif kind == "loopctl":
        par = parents[node]
        new = ast.Continue() if isinstance(node, ast.Break) else ast.Break()
        for f, v in ast.iter_fields(par):
            if isinstance(v, list) and node in v:
                v[v.index(node)] = ast.copy_location(new, node)
        desc = f"{type(node).__name__}->{type(new).__name__}"
    elif kind == "delstmt":
        par = parents[node]
        for f, v in ast.iter_fields(par):
            if isinstance(v, list) and node in v:
                v[v.index(node)] = ast.copy_location(ast.Pass(), node)
        desc = "delete:" + ast.unparse(node)[:60]
    ast.fix_missing_locations(tree)
    return tree, desc, line


def run_mutant(m, out, nproc):
    base = "/dev/shm" if os.access("/dev/shm", os.W_OK) else tempfile.gettempdir()
    tmp = tempfile.mkdtemp(prefix="vf-mutant-", dir=base)
    rec = dict(m)
    try:
        shutil.copytree(os.path.join(REPO, "torrentfile"), os.path.join(tmp, "torrentfile"),
                        ignore=shutil.ignore_patterns("__pycache__"))
        shutil.copytree(os.path.join(REPO, "tests"), os.path.join(tmp, "tests"),
                        ignore=shutil.ignore_patterns("__pycache__", "TESTDIR"))
        for f in ("pyproject.toml", "tox.ini", "setup.py"):
            if os.path.exists(os.path.join(REPO, f)):
                shutil.copy(os.path.join(REPO, f), tmp)
        src = open(os.path.join(REPO, "torrentfile", m["file"])).read()
        tree, desc, line = apply(ast.parse(src), m["kind"], m["idx"], m["variant"])
        rec.update(desc=desc, line=line)
        code = ast.unparse(tree)
        try:
            compile(code, m["file"], "exec")
        except SyntaxError:
            rec["status"] = "does-not-compile"
            return rec
        with open(os.path.join(tmp, "torrentfile", m["file"]), "w") as fd:
            fd.write(code)
        env = dict(os.environ, PYTHONDONTWRITEBYTECODE="1")
        p = subprocess.run(["/venv/bin/python", "-m", "pytest", "-q", "-x", "-p", "no:cacheprovider", "--timeout=300", "-q"],
                           cwd=tmp, capture_output=True, text=True, env=env, timeout=1800)
        if p.returncode != 0:
            rec["status"] = "killed-by-suite"
            return rec
        killed, inconclusive = [], []
        env.update(VERIF_REPO=tmp, VERIF_OUT=os.path.join(tmp, "vf-out"), VERIF_NPROC=str(nproc), VERIF_SEED="0")
        for prop in ALL_PROPS:
            try:
                q = subprocess.run(["/venv/bin/python", "-B", os.path.join(VERIF, "vf", "run.py"), prop, "--tier", "quick"],
                                   cwd=VERIF, capture_output=True, text=True, env=env, timeout=1800)
                rc = q.returncode
                has = any(l.startswith("VIOLATION") for l in q.stdout.splitlines())
            except subprocess.TimeoutExpired:
                rc, has = 2, False
            if rc == 1 and has:
                killed.append(prop)
            elif rc != 0:
                inconclusive.append(prop)
        rec.update(status="killed-by-checks" if killed else "survived", killed_by=killed, inconclusive=inconclusive)
        return rec
    except Exception as e:  # noqa
        rec["status"] = "tool-error: " + repr(e)[:200]
        return rec
    finally:
        shutil.rmtree(tmp, ignore_errors=True)
        with open(os.path.join(out, "mutants.jsonl"), "a") as fd:
            fd.write(json.dumps(rec) + "\n")


def main():
    ap = argparse.ArgumentParser()
    ap.add_argument("--n", type=int, default=240)
    ap.add_argument("--seed", type=int, default=0)
    ap.add_argument("--jobs", type=int, default=4)
    ap.add_argument("--nproc", type=int, default=4)
    ap.add_argument("--out", default="/dev/shm/mutation-run")
    ap.add_argument("--files", default=",".join(FILES))
    a = ap.parse_args()
    os.makedirs(a.out, exist_ok=True)
    # work from a snapshot: commits made to /repo while the run is going on must not shift the node indices
    global REPO
    snap = os.path.join(a.out, "base")
    if not os.path.isdir(snap):
        os.makedirs(snap)
        shutil.copytree("/repo/torrentfile", os.path.join(snap, "torrentfile"), ignore=shutil.ignore_patterns("__pycache__"))
        shutil.copytree("/repo/tests", os.path.join(snap, "tests"), ignore=shutil.ignore_patterns("__pycache__", "TESTDIR"))
        for f in ("pyproject.toml", "tox.ini", "setup.py"):
            if os.path.exists(os.path.join("/repo", f)):
                shutil.copy(os.path.join("/repo", f), snap)
    REPO = snap
    allsites = []
    for f in a.files.split(","):
        tree = ast.parse(open(os.path.join(REPO, "torrentfile", f)).read())
        for kind, idx, variant in sites(tree):
            allsites.append({"file": f, "kind": kind, "idx": idx, "variant": variant})
    rng = random.Random(a.seed)
    rng.shuffle(allsites)
    chosen = allsites[:a.n]
    print(f"{len(allsites)} mutation sites, running {len(chosen)}", flush=True)
    with ThreadPoolExecutor(a.jobs) as ex:
        recs = list(ex.map(lambda m: run_mutant(m, a.out, a.nproc), chosen))
    summary = {}
    for r in recs:
        summary[r["status"]] = summary.get(r["status"], 0) + 1
    survivors = [r for r in recs if r["status"] == "survived"]
    with open(os.path.join(a.out, "summary.json"), "w") as fd:
        json.dump({"counts": summary, "survivors": survivors}, fd, indent=1)
    print(json.dumps(summary))
    for r in survivors:
        print("SURVIVOR", r["file"], r["line"], r["kind"], r["desc"], "inconclusive:", r.get("inconclusive"))
    return 0


if __name__ == "__main__":
    sys.exit(main())
