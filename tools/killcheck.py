#!/venv/bin/python -B
"""Run registered checks against a mutated scratch copy of /repo.

    killcheck.py <patch.diff> <Cxx>[,<Cyy>...] [--tier quick|thorough] [--seeds 0,1,2]

Copies /repo/torrentfile to a scratch directory outside /repo and /verif, applies the patch there,
runs the checks with VERIF_REPO pointing at the copy (evidence and replays go to a scratch directory
as well, so committed evidence is never touched), prints one line per (check, seed) and removes the
copy.  Exit status 0 = every listed check reported a VIOLATION for at least one seed."""
import argparse
import os
import shutil
import subprocess
import sys
import tempfile

VERIF = os.path.dirname(os.path.dirname(os.path.abspath(__file__)))


def main():
    ap = argparse.ArgumentParser()
    ap.add_argument("patch")
    ap.add_argument("props")
    ap.add_argument("--tier", default="quick")
    ap.add_argument("--seeds", default="0")
    ap.add_argument("--keep", action="store_true")
    a = ap.parse_args()
    base = "/dev/shm" if os.access("/dev/shm", os.W_OK) else tempfile.gettempdir()
    tmp = tempfile.mkdtemp(prefix="vf-mut-", dir=base)
    try:
        shutil.copytree("/repo/torrentfile", os.path.join(tmp, "repo", "torrentfile"),
                        ignore=shutil.ignore_patterns("__pycache__"))
        r = subprocess.run(["patch", "-p1", "-s", "-d", os.path.join(tmp, "repo"), "-i", os.path.abspath(a.patch)],
                           capture_output=True, text=True)
        if r.returncode != 0:
            # a later fix: commit rewrote the code this change was written against: evaluate it on the commit recorded
            # in its meta.json ("base_commit") instead
            base_commit = None
            mp = os.path.join(os.path.dirname(os.path.abspath(a.patch)), "meta.json")
            if os.path.exists(mp):
                import json
                base_commit = json.load(open(mp)).get("base_commit")
            if not base_commit:
                print("PATCH-FAILED", r.stdout, r.stderr)
                return 3
            shutil.rmtree(os.path.join(tmp, "repo"))
            os.makedirs(os.path.join(tmp, "repo"))
            ar = subprocess.run(f"git -C /repo archive {base_commit} torrentfile | tar -x -C {os.path.join(tmp, 'repo')}",
                                shell=True, capture_output=True, text=True)
            r = subprocess.run(["patch", "-p1", "-s", "-d", os.path.join(tmp, "repo"), "-i", os.path.abspath(a.patch)],
                               capture_output=True, text=True)
            if ar.returncode != 0 or r.returncode != 0:
                print("PATCH-FAILED (also on base commit)", ar.stderr, r.stdout, r.stderr)
                return 3
            print(f"NOTE: does not apply to the current tree any more; evaluated on its base commit {base_commit}")
        allkilled = True
        for prop in a.props.split(","):
            killed = False
            for seed in a.seeds.split(","):
                env = dict(os.environ, VERIF_REPO=os.path.join(tmp, "repo"), VERIF_OUT=os.path.join(tmp, "out"),
                           VERIF_SEED=seed, VERIF_TIER=a.tier)
                p = subprocess.run(["/venv/bin/python", "-B", os.path.join(VERIF, "vf", "run.py"), prop, "--tier", a.tier],
                                   capture_output=True, text=True, env=env, cwd=VERIF)
                lines = p.stdout.strip().splitlines()
                hist = [l.strip() for l in lines if " x " in l][:4]
                viol = [l for l in lines if l.startswith("VIOLATION")]
                print(f"{prop} seed={seed} exit={p.returncode} violations_lines={len(viol)} :: {lines[-1] if lines else ''}")
                for h in hist:
                    print("      ", h)
                if p.returncode == 1 and viol:
                    killed = True
                    first = [l for l in lines if l.startswith("  kind=")][:1]
                    for f in first:
                        print("      ", f[:400])
                    break
            print(f"{prop}: {'KILLED' if killed else 'SURVIVED'}")
            allkilled &= killed
        return 0 if allkilled else 1
    finally:
        if not a.keep:
            shutil.rmtree(tmp, ignore_errors=True)


if __name__ == "__main__":
    sys.exit(main())
