#!/venv/bin/python -B
"""Kill matrix part 1: every 'fix:' commit in /repo, reverted on a scratch copy, must be reported by the
check of the property it was recorded under (known_findings.json 'fixed:' entries)."""
import json
import os
import re
import subprocess
import sys
import tempfile

VERIF = os.path.dirname(os.path.dirname(os.path.abspath(__file__)))
doc = json.load(open(os.path.join(VERIF, "known_findings.json")))
by_commit = {}
for line in doc["fixed"]:
    m = re.match(r"fixed: property=(C\d+) ([0-9a-f]{7,}) (.*)", line)
    by_commit.setdefault(m.group(2), set()).add(m.group(1))
only = set(sys.argv[1:])
rc = 0
for commit, props in by_commit.items():
    if only and not (only & props) and commit not in only:
        continue
    diff = subprocess.run(["git", "-C", "/repo", "diff", commit, commit + "~1", "--", "torrentfile"],
                          capture_output=True, text=True).stdout
    with tempfile.NamedTemporaryFile("w", suffix=".diff", delete=False, dir="/dev/shm") as fd:
        fd.write(diff)
    subj = subprocess.run(["git", "-C", "/repo", "log", "-1", "--format=%s", commit], capture_output=True, text=True).stdout.strip()
    print(f"=== revert {commit} ({subj}) -> {sorted(props)}")
    p = subprocess.run([os.path.join(VERIF, "tools", "killcheck.py"), fd.name, ",".join(sorted(props)), "--seeds", "0,1"],
                       capture_output=True, text=True)
    os.unlink(fd.name)
    for l in p.stdout.splitlines():
        if "KILLED" in l or "SURVIVED" in l or "PATCH-FAILED" in l:
            print("   ", l)
    if p.returncode != 0:
        rc = 1
sys.exit(rc)
