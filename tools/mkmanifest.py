#!/venv/bin/python -B
"""Regenerates /verif/MANIFEST.json from the table below."""
import json
import os

HERE = os.path.dirname(os.path.dirname(os.path.abspath(__file__)))

CHECKS = {
    "C01": ("exploration", "3.C01", "reference-model monitor: BEP 3 re-hashing of the tree vs. the written metafile",
            "Thousands of generated trees (boundary-biased sizes, pieces straddling 2..40 files, empty files, "
            "sort-trap names) are created through TorrentFile and the CLI under all progress modes and permuted "
            "directory enumeration; an independent BEP 3 hashing of the files on disk judges files list, lengths, "
            "piece length and pieces; a fifth of the cases re-create the same path after the tree changed in the same "
            "process, others reach the content path through a list-valued option. Exploration, not proof."),
    "C02": ("exploration", "3.C02", "reference-model monitor: two independent BEP 52 merkle formulations vs. file tree / piece layers",
            "Every creator that writes v2 data (TorrentFileV2, TorrentFileHybrid, TorrentAssembler 2/3, CLI) is run on "
            "generated trees whose sizes hit every padding rule; roots and piece layers are compared with two "
            "independent reference formulations that must agree with each other."),
    "C03": ("exploration", "3.C03", "reference-model monitor: v1 view vs v2 view of hybrid metafiles",
            "Both hybrid creators and the CLI on generated trees; the oracle cross-checks files/length/pieces against "
            "the file tree and the reference SHA-1 hashing of the zero-padded stream."),
    "C04": ("exploration", "3.C04", "differential monitor: recheck result vs reference re-checker on damaged trees",
            "Generated (metafile, tree, damage set) triples - tool-made and reference-encoded metafiles, 1-4 flips / "
            "truncations / removals at boundary-biased positions, next to empty files - are rechecked through "
            "Checker and the CLI; whenever the reference re-checker finds a failing piece the tool must report < 100."),
    "C05": ("exploration", "3.C05", "differential monitor: recheck of intact content for tool-made and reference-encoded metafiles",
            "Intact generated trees with metafiles from all creators and from an independent spec-conformant encoder "
            "(unsorted v1 order, BEP 47 padding, v2 single file without length, hybrid with/without trailing pad, "
            "extra keys, hash strings that are valid UTF-8, metafiles that went through edit first) are rechecked via the "
            "payload root and via its parent, also after earlier (failing) rechecks in the same process; both must "
            "give exactly 100.  One known finding (parent named like the payload) is classified by an exact defect model."),
    "C06": ("exploration", "3.C06", "strict reference bencode decoder + structural schema on every file written by create and by each edit step",
            "Every metafile written by any creator with any option subset and after every step of random edit "
            "histories (library and CLI) is parsed by a strict byte-level decoder reporting unsorted / duplicate "
            "keys, redundant digits and trailing bytes, and checked against the per-version structure."),
    "C07": ("exploration", "3.C07", "history monitor: span-decoded file vs executable edit model after every edit",
            "Random edit histories over the six editable fields (set string/list, clear, unnamed) through "
            "edit_torrent and the CLI on tool-made and reference-encoded originals; after each step every unnamed "
            "key must be byte-identical and the info-hash unchanged when only trackers/seeds were named."),
    "C10": ("exploration", "3.C10", "differential monitor: paired creators and the three v2 hashers on the same payload",
            "Same file fed to HasherV2, HasherHybrid and FileHasher (with and without hybrid) and same tree fed to the "
            "paired creators; roots, layers, pieces, padding descriptions and written files must agree."),
    "C11": ("exploration", "3.C11", "reference-model monitor: parsed magnet URI vs hashes of the raw info span",
            "Magnet URIs (returned and printed; library and CLI) for tool-made, edited and reference-encoded "
            "metafiles with hostile names / URLs and every satisfiable version request are parsed with urllib and "
            "compared with SHA-1/SHA-256 of the exact info bytes, the name, tracker and web-seed lists."),
    "C12": ("exploration", "3.C12", "runtime contract on normalize_piece_length / get_piece_length + exhaustive small-integer enumeration + creation routes",
            "A contract wrapper judges every call of the two piece-length functions: all integers in [-64, 2^17+64] "
            "exhaustively, powers of two +-3 up to 2^1100, random big integers, a table of numeric/non-numeric "
            "strings, the same values through library, CLI and config-file creation (recorded value checked) and "
            "the automatic choice for 10^5 sizes up to 2^50 (range and monotonicity)."),
    "C15": ("exploration", "3.C15", "reference-model monitor: padded-stream re-hashing of piece-aligned v1 metafiles",
            "TorrentFile(align=True) and CLI --align on generated trees with every remainder class; oracle checks "
            "alignment of every payload file, pad length == gap, pad marking, piece count and pieces."),
    "C16": ("exploration", "3.C16", "differential monitor: reported percentage vs exact reference fraction",
            "As C04 with 0-4 simultaneous damages; the reported percentage must equal the reference share of bytes in "
            "verifying pieces to 1e-9.  Includes sparse payloads: a file with an island of zero bytes is removed or cut so that "
            "whole all-zero pieces are absent; read as zeros they hash to the recorded values and count."),
    "C20": ("exploration", "3.C20", "differential monitor: CLI flags (all positions) vs configuration file vs library keywords",
            "Random option subsets are supplied through the three routes (CLI with path first/middle/last/swallowed "
            "by each list flag/implicit create and flag aliases); every option must land in its documented field "
            "and the three files must be identical apart from the creation date."),
    "C08": ("exploration", "3.C08", "metamorphic monitor: raw info span across path spellings, locations, enumeration orders, option and clock variants",
            "One tree is created 14-18 times in separate processes under variants that must not matter (spelling of "
            "the path incl. dot segments and trailing separators, working directory, relocated copy, permuted "
            "os.listdir/os.scandir results, tracker/seed lists, output location, progress mode, -q, shifted clock); the "
            "raw info bytes must be identical and the whole file may differ only in the creation date."),
    "C09": ("exploration", "3.C09", "history monitor: one long-lived interpreter vs a fresh interpreter per step on twin sandboxes",
            "Random histories of creates, filesystem mutations under the content path, edits, rechecks, rebuilds and "
            "magnets run step by step in one long-lived process and in a fresh interpreter per step on twin "
            "sandboxes; every observable result is compared after every step."),
    "C13": ("exploration", "3.C13", "reference-model monitor: rebuilt destination tree verified by the reference re-checker",
            "Batches of v1/v2/hybrid torrents whose files are scattered by basename over several search directories "
            "next to junk and same-name decoys (enumeration permuted) are rebuilt through Assembler and the CLI; every "
            "listed file must exist with its length, the destination must verify at 100% and the count must not exceed "
            "the files present.  Includes two-phase rebuilds, file search paths, UTF-8-valid hashes, edited metafiles and "
            "same-name decoys that share their beginning with the genuine file (known finding, exact defect model, "
            "pinned witness)."),
    "C14": ("exploration", "3.C14", "invariant monitor: before/after snapshots + audit-event log around (repeated) rebuilds",
            "As C13 with pre-populated destinations (correct / wrong / shorter / unrelated files) and 1-3 consecutive "
            "rebuilds; snapshots and the audit log of every write-class event show that sources and metafiles are "
            "untouched, full-length destination files keep their bytes and everything placed is a copy of a search "
            "file at an assigned path and never a decoy."),
    "C17": ("fault_enumeration", "3.C17", "fault enumeration: crash before every traced line / around every filesystem operation, I/O errors and short writes at every operation",
            "For each (metafile, edit request, route) the un-faulted edit is traced (sys.monitoring LINE events in "
            "torrentfile.edit/commands and pyben; wrappers on every write-class primitive, cross-checked against the "
            "audit hook) and then re-run once per fault point in a forked process: process death before lines and "
            "before/after operations and after k bytes of each write, EACCES/ENOSPC/EIO at each operation, short write, "
            "silent short write, error on close, fault SEQUENCES (edit 1 survives an I/O error, edit 2 is then faulted), "
            "read-only metafiles, un-encodable values.  The metafile path must hold exactly the old or the new bytes. "
            "Enumeration is exhaustive over operations and over distinct lines (first/last occurrence) of the traced "
            "run, sampled over repeated line events."),
    "C18": ("exploration", "3.C18", "invariant monitor: sandbox snapshots + audit-event log around every CLI command",
            "recheck/check, info, magnet/m (with -q/-v, intact and damaged content), create/new/implicit create (all "
            "versions, options, out forms, pre-existing probe-path or output files) and rename (target free/existing) "
            "run inside a sandbox whose full snapshot (names, sizes, SHA-256, modes) and write-event log are compared "
            "with the effect the statement allows."),
    "C19": ("exploration", "3.C19", "veto monitor: audit hook records and blocks every write-class event resolving outside the destination",
            "Reference-encoded hostile metafiles ('..', '.', '', absolute, embedded separators, deep chains in name and "
            "directory components; v1/v2/hybrid) with matching candidates are rebuilt under an audit hook that blocks "
            "and records any write whose resolved target is outside the destination; no such event may occur and the "
            "outside snapshot must be unchanged.  Also: components that add no level in front of a climb, and two entries "
            "that resolve to one destination path with a candidate each."),
}

PENDING = {}

NOTE = ("Trusted base: the reference models under vf/ref (small, self-tested by setup_cmd; two BEP 52 formulations must "
        "agree), CPython's hashlib/os, and the harness. Inputs are bounded as stated in DESIGN.md section 5. "
        "A clean run means 'held on the executions listed in the evidence file'.")


def main():
    checks = []
    for pid, (cat, ref, technique, text) in sorted(CHECKS.items()):
        checks.append({
            "property_id": pid,
            "quick_cmd": f"/venv/bin/python -B vf/run.py {pid} --tier quick",
            "thorough_cmd": f"/venv/bin/python -B vf/run.py {pid} --tier thorough",
            "evidence_file": f"/verif/evidence/{pid}.json",
            "replay_cmd_template": f"/venv/bin/python -B vf/run.py {pid} --replay {{path}}",
            "engine": "vf",
            "level_claimed": {"category": cat, "text": text, "design_ref": ref},
            "level_note": NOTE,
            "technique": technique,
        })
    man = {
        "version": 1,
        "setup_cmd": "/venv/bin/python -B vf/selftest.py",
        "hooks": {
            "guard": "TORRENTFILE_VERIF",
            "enable": "no instrumentation is compiled into /repo; monitors attach from outside (sys.addaudithook, "
                      "sys.monitoring, attribute wrapping inside a forked child); the guard name is unused by the repository",
            "baseline_off_cmd": "cd /repo && /venv/bin/python -m pytest -ra -q -p no:cacheprovider --timeout=900 "
                                "--continue-on-collection-errors",
            "source_commits": [],
            "add_only": True,
        },
        "engines": [{"name": "vf", "path": "/verif/vf", "serves_properties": sorted(CHECKS),
                     "kind_free_text": "runtime monitoring harness: forked child per execution, reference-model "
                                       "oracles, audit-hook / sys.monitoring monitors, fault injection"}],
        "checks": checks,
        "notes": "See DESIGN.md. known_findings.json lists genuine defects (fixed entries suppress nothing).",
        "not_applicable": [{"property_id": k, "reason": v} for k, v in sorted(PENDING.items())],
    }
    with open(os.path.join(HERE, "MANIFEST.json"), "w") as fd:
        json.dump(man, fd, indent=1)
        fd.write("\n")


if __name__ == "__main__":
    main()
