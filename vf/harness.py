"""Execution harness: one forked child per execution of repository code,
parallel scheduling, watchdog, scratch handling, three-valued verdicts,
known-finding classification, evidence and replay files."""
import atexit
import json
import os
import pickle
import random
import resource
import select
import shutil
import signal
import sys
import tempfile
import time
import traceback

VERIF = os.path.dirname(os.path.dirname(os.path.abspath(__file__)))
REPO = os.path.abspath(os.environ.get("VERIF_REPO", "/repo"))
OUT = os.path.abspath(os.environ.get("VERIF_OUT", VERIF))      # where evidence/ and replays/ are written
NPROC = int(os.environ.get("VERIF_NPROC", str(min(16, os.cpu_count() or 4))))

_scratch_root = None


def scratch_root():
    global _scratch_root
    if _scratch_root is None:
        base = os.environ.get("TMPDIR")
        if not base:
            base = "/dev/shm" if os.access("/dev/shm", os.W_OK) else tempfile.gettempdir()
        _scratch_root = tempfile.mkdtemp(prefix="vf-", dir=base)
        atexit.register(_cleanup)
    return _scratch_root


_main_pid = os.getpid()


def _cleanup():
    if os.getpid() == _main_pid and _scratch_root:
        shutil.rmtree(_scratch_root, ignore_errors=True)


def import_repo():
    """Import torrentfile from the tree under test and make sure it is that one."""
    if sys.path[0] != REPO:
        sys.path.insert(0, REPO)
    sys.dont_write_bytecode = True
    import torrentfile  # noqa
    import torrentfile.cli, torrentfile.commands, torrentfile.edit  # noqa
    import torrentfile.rebuild, torrentfile.recheck, torrentfile.torrent  # noqa
    here = os.path.realpath(os.path.dirname(torrentfile.__file__))
    want = os.path.realpath(os.path.join(REPO, "torrentfile"))
    if here != want:
        print(f"INCONCLUSIVE: torrentfile imported from {here}, wanted {want}")
        sys.exit(2)
    return torrentfile


# --------------------------------------------------------------------------
class Inconclusive(Exception):
    """Raised inside a case when the harness (not the code under test) cannot
    judge."""


def _perturb_environment(case):
    """No property allows a result to depend on the terminal size, the time zone or the umask of the calling process:
    every case runs under one of 60 combinations, chosen from the case itself (so a replay sees the same one)."""
    import time
    import zlib
    h = zlib.crc32(repr(case).encode("utf-8", "backslashreplace"))
    cols = (20, 40, 80, 80, 132, 250)[h % 6]
    tz = ("UTC", "Asia/Kolkata", "America/St_Johns", "Pacific/Auckland")[(h // 6) % 4]
    um = (0o022, 0o077, 0o002)[(h // 24) % 3]
    os.environ["COLUMNS"] = str(cols)
    os.environ["LINES"] = str((10, 24, 50)[(h // 72) % 3])
    os.environ["TZ"] = tz
    time.tzset()
    os.umask(um)
    # what an earlier '-v' command or a host application leaves behind in the process: DEBUG logging with the package's
    # debug flag on (1 case in 6), observers registered on the documented hooks (1 case in 5) - applied by drive.mod()
    verbose = (h // 216) % 6 == 0
    hooks = (h // 1296) % 5 == 0
    os.environ["VF_VERBOSE"] = "1" if verbose else "0"
    os.environ["VF_HOOKS"] = "1" if hooks else "0"
    return f"cols={cols},tz={tz},umask={um:03o}" + (",verbose" if verbose else "") + (",hooks" if hooks else "")


def _child_main(fn, case, scratch, wfd, mem_limit):
    try:
        os.setsid()
    except OSError:
        pass
    try:
        if mem_limit:
            resource.setrlimit(resource.RLIMIT_AS, (mem_limit, mem_limit))
        devnull = os.open(os.devnull, os.O_RDWR)
        if not os.environ.get("VERIF_CHILD_OUTPUT"):
            os.dup2(devnull, 1)
            os.dup2(devnull, 2)
        os.dup2(devnull, 0)
        sys.stdout = open(1, "w", closefd=False)
        sys.stderr = open(2, "w", closefd=False)
        os.makedirs(scratch, exist_ok=True)
        os.chdir(scratch)
        os.environ["HOME"] = scratch
        envtag = _perturb_environment(case)
        try:
            res = fn(case, scratch)
            if isinstance(res, dict) and isinstance(res.get("counters"), dict):
                res["counters"]["environment:" + envtag] = 1
        except Inconclusive as exc:
            res = {"inconclusive": str(exc)}
        except BaseException:  # harness error, not a verdict
            res = {"inconclusive": "harness-error", "traceback": traceback.format_exc()}
        blob = pickle.dumps(res)
    except BaseException:
        blob = pickle.dumps({"inconclusive": "child-setup", "traceback": traceback.format_exc()})
    try:
        with os.fdopen(wfd, "wb") as w:
            w.write(blob)
    finally:
        os._exit(0)


def run_cases(fn, cases, timeout=60.0, nproc=None, mem_limit=3 << 30, label="case", progress=None):
    """Run fn(case, scratch_dir) for every case, each in its own forked child.
    Returns list of results (dicts) aligned with cases.  A child that dies or
    exceeds the watchdog gives {"inconclusive": reason}."""
    nproc = nproc or NPROC
    root = scratch_root()
    results = [None] * len(cases)
    active = {}          # rfd -> [pid, idx, start, chunks, scratch]
    poller = select.poll()
    nxt = 0
    uniq = 0
    done = 0
    while nxt < len(cases) or active:
        while nxt < len(cases) and len(active) < nproc:
            rfd, wfd = os.pipe()
            uniq += 1
            scratch = os.path.join(root, f"{label}-{os.getpid()}-{nxt}-{uniq}")
            sys.stdout.flush()
            pid = os.fork()
            if pid == 0:
                os.close(rfd)
                for r in list(active):
                    try:
                        os.close(r)
                    except OSError:
                        pass
                _child_main(fn, cases[nxt], scratch, wfd, mem_limit)
            os.close(wfd)
            active[rfd] = [pid, nxt, time.monotonic(), [], scratch]
            poller.register(rfd, select.POLLIN | select.POLLHUP)
            nxt += 1
        events = poller.poll(200)
        now = time.monotonic()
        for rfd, _ev in events:
            ent = active.get(rfd)
            if ent is None:
                continue
            data = os.read(rfd, 1 << 20)
            if data:
                ent[3].append(data)
                continue
            # EOF
            poller.unregister(rfd)
            os.close(rfd)
            del active[rfd]
            pid, idx, _st, chunks, scratch = ent
            try:
                _, status = os.waitpid(pid, 0)
            except ChildProcessError:
                status = 0
            blob = b"".join(chunks)
            if blob:
                try:
                    results[idx] = pickle.loads(blob)
                except Exception:
                    results[idx] = {"inconclusive": "bad-result-blob"}
            else:
                results[idx] = {"inconclusive": f"child-died status={status}"}
            _killgroup(pid)
            shutil.rmtree(scratch, ignore_errors=True)
            done += 1
            if progress and done % progress == 0:
                print(f"  .. {done}/{len(cases)}", flush=True)
        for rfd, ent in list(active.items()):
            if now - ent[2] > timeout:
                pid, idx, _st, _chunks, scratch = ent
                _killgroup(pid)
                try:
                    os.kill(pid, signal.SIGKILL)
                except ProcessLookupError:
                    pass
                try:
                    os.waitpid(pid, 0)
                except ChildProcessError:
                    pass
                poller.unregister(rfd)
                os.close(rfd)
                del active[rfd]
                results[idx] = {"inconclusive": f"watchdog {timeout}s"}
                shutil.rmtree(scratch, ignore_errors=True)
                done += 1
    return results


def _killgroup(pid):
    try:
        os.killpg(pid, signal.SIGKILL)
    except (ProcessLookupError, PermissionError, OSError):
        pass


def run_one(fn, case, timeout=300.0, mem_limit=3 << 30):
    return run_cases(fn, [case], timeout=timeout, nproc=1, mem_limit=mem_limit)[0]


# --------------------------------------------------------------------------
def rng_for(prop, seed, i, salt=""):
    return random.Random(f"{prop}/{seed}/{i}/{salt}")


_NOZERO = bytes([1] + list(range(1, 256)))


def content(seed, n):
    """Deterministic file content of n bytes without any 0x00 byte."""
    if isinstance(seed, str) and seed.startswith("raw:"):
        return seed[4:].encode()
    if n == 0:
        return b""
    if isinstance(seed, str) and seed.startswith("zero"):
        return bytes(n)                               # preallocated / sparse file: nothing but zero bytes
    if isinstance(seed, str) and seed.startswith("zmid:"):
        # sparse image: ordinary bytes with one island of zero bytes [a, b) in the middle  (zmid:<seed>:<a>:<b>)
        _, sd, a, b = seed.split(":")
        a, b = min(int(a), n), min(int(b), n)
        body = bytearray(random.Random(f"content/{sd}").randbytes(n).translate(_NOZERO))
        body[a:b] = bytes(b - a)
        return bytes(body)
    if isinstance(seed, str) and seed.startswith("ztail:"):
        # disk image with an unused tail: the last (partial) 16 KiB block and the block before it are zero bytes
        keep = max(0, n - (n % 16384 or 16384) - 16384)
        return random.Random(f"content/{seed}").randbytes(keep).translate(_NOZERO) + bytes(n - keep)
    return random.Random(f"content/{seed}").randbytes(n).translate(_NOZERO)


def materialise(root, files, dirs=(), links=()):
    """files: list of [relpath, size, content_seed]; creates them under root.
    links: [[newrel, targetrel]] - newrel (listed in files with the target's size and seed, so every reference
    computation stays valid) becomes a HARD LINK to targetrel: two regular directory entries, one inode."""
    os.makedirs(root, exist_ok=True)
    for d in dirs:
        os.makedirs(os.path.join(root, d), exist_ok=True)
    for rel, size, cseed in files:
        p = os.path.join(root, rel)
        os.makedirs(os.path.dirname(p), exist_ok=True)
        with open(p, "wb") as fd:
            fd.write(content(cseed, size))
    for entry in links:
        newrel, target = entry[0], entry[1]
        p, t = os.path.join(root, newrel), os.path.join(root, target)
        if len(entry) > 2 and entry[2] == "symdir":
            # a second NAME for a directory of the payload: relative symbolic link to a sibling / cousin directory
            # (never a cycle); the files below it are not listed in `files`
            if os.path.isdir(t) and not os.path.lexists(p):
                os.makedirs(os.path.dirname(p), exist_ok=True)
                os.symlink(os.path.relpath(t, os.path.dirname(p)), p)
            continue
        if len(entry) > 2 and entry[2] == "symfile":
            # a second name for a regular file of the payload (relative symbolic link)
            if os.path.isfile(t) and not os.path.lexists(p):
                os.makedirs(os.path.dirname(p), exist_ok=True)
                os.symlink(os.path.relpath(t, os.path.dirname(p)), p)
            continue
        if os.path.isfile(p) and os.path.isfile(t):
            os.remove(p)
            os.link(t, p)


def materialise_single(path, size, cseed):
    os.makedirs(os.path.dirname(path), exist_ok=True)
    with open(path, "wb") as fd:
        fd.write(content(cseed, size))


def jsonable(x):
    if isinstance(x, (bytes, bytearray)):
        b = bytes(x)
        return "hex:" + (b.hex() if len(b) <= 48 else b[:24].hex() + f"...({len(b)}B)")
    if isinstance(x, dict):
        return {str(jsonable(k)) if not isinstance(k, str) else k: jsonable(v) for k, v in x.items()}
    if isinstance(x, (list, tuple, set, frozenset)):
        return [jsonable(v) for v in x]
    if isinstance(x, (str, int, float, bool)) or x is None:
        return x
    return repr(x)


# --------------------------------------------------------------------------
def load_known():
    path = os.path.join(VERIF, "known_findings.json")
    try:
        with open(path) as fd:
            doc = json.load(fd)
    except FileNotFoundError:
        return {}
    return {k["id"]: k for k in doc.get("known", [])}


class Check:
    """Aggregates results of one property run and produces verdict + evidence."""

    def __init__(self, prop, tier, seed, level="exploration"):
        self.prop, self.tier, self.seed, self.level = prop, tier, seed, level
        self.t0 = time.monotonic()
        self.evaluations = 0
        self.sigs = set()
        self.counters = {}
        self.samples = []
        self.violations = []      # (case, violation dict)
        self.known_hits = {}      # finding id -> count
        self.inconclusive = []
        self.cases = 0
        self.reach = {}
        self.hist = {}
        self.known = load_known()
        self.extra = {}

    def count(self, name, n=1):
        self.counters[name] = self.counters.get(name, 0) + n

    def absorb(self, case, res, classify=None, max_samples=6):
        """Fold one child result into the aggregate."""
        self.cases += 1
        if res is None or "inconclusive" in res:
            self.inconclusive.append({"case": jsonable(case), "why": (res or {}).get("inconclusive"),
                                      "traceback": (res or {}).get("traceback")})
            return
        self.evaluations += res.get("evaluations", 1)
        if res.get("nontrivial"):
            for s in res.get("sigs", [res.get("sig")]):
                self.sigs.add(json.dumps(jsonable(s), sort_keys=True))
        for k, v in res.get("counters", {}).items():
            self.count(k, v)
        for k, v in res.get("hist", {}).items():
            h = self.hist.setdefault(k, {})
            h[str(v)] = h.get(str(v), 0) + 1
        for fn, (hit, total) in res.get("reach", {}).items():
            cur = self.reach.setdefault(fn, [set(), total])
            cur[0] |= set(hit)
        if res.get("sample") is not None and len(self.samples) < max_samples:
            self.samples.append(jsonable(res["sample"]))
        for v in res.get("violations", []):
            fid = classify(case, v) if classify else None
            if fid and fid in self.known and self.known[fid].get("property") == self.prop:
                self.known_hits[fid] = self.known_hits.get(fid, 0) + 1
            else:
                self.violations.append((case, v))

    # ------------------------------------------------------------------
    def finish(self, rule, required=(), assumptions=(), extra=None, min_cases=1):
        wall = time.monotonic() - self.t0
        reach_out = {fn: f"{len(h)}/{t}" for fn, (h, t) in sorted(self.reach.items())}
        coverage = {
            "evaluations": self.evaluations,
            "distinct_nontrivial": len(self.sigs),
            "rule": rule,
            "samples": self.samples,
            "cases": self.cases,
            "monitor_counters": dict(sorted(self.counters.items())),
            "histograms": self.hist,
            "anchor_reach": reach_out,
            "inconclusive_cases": len(self.inconclusive),
            "known_findings_hit": self.known_hits,
        }
        if extra:
            coverage.update(extra)
        coverage.update(self.extra)
        missing = [r for r in required if not self.counters.get(r)]
        too_many_inc = len(self.inconclusive) > max(1, self.cases // 10)
        status = "held"
        if self.violations:
            status = "violated"
        elif missing or too_many_inc or self.evaluations < min_cases or len(self.sigs) < 2:
            status = "inconclusive"
        coverage["verdict"] = status
        if missing:
            coverage["required_reach_missing"] = missing
        if self.inconclusive:
            coverage["inconclusive_samples"] = self.inconclusive[:3]
        ev = {
            "property_id": self.prop,
            "tier": self.tier,
            "seed": self.seed,
            "level": self.level,
            "coverage": coverage,
            "assumptions": list(assumptions),
            "wall_s": round(wall, 3),
            "violations": len(self.violations),
        }
        os.makedirs(os.path.join(OUT, "evidence"), exist_ok=True)
        with open(os.path.join(OUT, "evidence", f"{self.prop}.json"), "w") as fd:
            json.dump(ev, fd, indent=1, sort_keys=False)
            fd.write("\n")
        for fid, n in sorted(self.known_hits.items()):
            print(f"KNOWN-FINDING: property={self.prop} {fid}: {self.known[fid].get('what', '')} (seen {n}x)")
        if self.violations:
            rdir = os.path.join(OUT, "replays", self.prop)
            os.makedirs(rdir, exist_ok=True)
            shown = 0
            kinds = set()
            for n, (case, v) in enumerate(self.violations):
                kind = v.get("kind", "?")
                if kind in kinds and shown >= 5:
                    continue
                kinds.add(kind)
                if shown >= 12:
                    break
                path = os.path.join(rdir, f"{self.seed}-{self.tier}-{n}.json")
                with open(path, "w") as fd:
                    json.dump({"property": self.prop, "seed": self.seed, "tier": self.tier,
                               "case": jsonable_case(case), "violation": jsonable(v)}, fd, indent=1)
                print(f"VIOLATION property={self.prop} replay={path}")
                print(f"  kind={kind} detail={json.dumps(jsonable(v.get('detail')))[:600]}")
                shown += 1
            hist = {}
            for _c, v in self.violations:
                key = v.get("kind", "?") + "".join(f"/{k}={v['detail'][k]}" for k in ("route", "field", "form", "via")
                                                   if isinstance(v.get("detail"), dict) and k in v["detail"]
                                                   and isinstance(v["detail"][k], (str, int)))
                hist[key] = hist.get(key, 0) + 1
            for k, n in sorted(hist.items(), key=lambda kv: -kv[1])[:25]:
                print(f"  {n:6d} x {k}")
            print(f"{self.prop}: VIOLATED ({len(self.violations)} violating observations in {self.cases} cases, {wall:.1f}s)")
            return 1
        if status == "inconclusive":
            print(f"INCONCLUSIVE property={self.prop} missing={missing} inconclusive_cases={len(self.inconclusive)} "
                  f"evaluations={self.evaluations} sigs={len(self.sigs)}")
            for inc in self.inconclusive[:3]:
                print("  ", json.dumps(inc)[:1500])
            return 2
        print(f"{self.prop}: held on {self.evaluations} judged executions in {self.cases} cases, "
              f"{len(self.sigs)} distinct non-trivial classes, {len(self.inconclusive)} inconclusive, {wall:.1f}s")
        return 0


def jsonable_case(case):
    """Cases are JSON-able by construction (replay needs to load them back)."""
    return case


def tier_and_seed(argv_tier=None):
    tier = argv_tier or os.environ.get("VERIF_TIER") or "quick"
    if tier not in ("quick", "thorough"):
        tier = "quick"
    try:
        seed = int(os.environ.get("VERIF_SEED", "0"))
    except ValueError:
        seed = 0
    return tier, seed


def ncases(quick, thorough, tier):
    n = quick if tier == "quick" else thorough
    scale = os.environ.get("VERIF_SCALE")
    if scale:
        n = max(2, int(n * float(scale)))
    return n


def fork_call(fn, *args, timeout=120.0):
    """Run fn(*args) in a forked grandchild (fresh copy of the current process
    state, no shared mutable state afterwards); returns ("ok", value) |
    ("exc", repr) | ("timeout", None) | ("died", status)."""
    rfd, wfd = os.pipe()
    sys.stdout.flush()
    pid = os.fork()
    if pid == 0:
        os.close(rfd)
        try:
            try:
                blob = pickle.dumps(("ok", fn(*args)))
            except BaseException:  # noqa
                blob = pickle.dumps(("exc", traceback.format_exc()))
            with os.fdopen(wfd, "wb") as w:
                w.write(blob)
        finally:
            os._exit(0)
    os.close(wfd)
    chunks = []
    deadline = time.monotonic() + timeout
    while True:
        left = deadline - time.monotonic()
        if left <= 0:
            try:
                os.kill(pid, signal.SIGKILL)
            except ProcessLookupError:
                pass
            os.waitpid(pid, 0)
            os.close(rfd)
            return ("timeout", None)
        r, _, _ = select.select([rfd], [], [], min(left, 1.0))
        if r:
            data = os.read(rfd, 1 << 20)
            if not data:
                break
            chunks.append(data)
    os.close(rfd)
    _, status = os.waitpid(pid, 0)
    blob = b"".join(chunks)
    if not blob:
        return ("died", status)
    return pickle.loads(blob)
