"""Seeded, boundary-biased generators for payload trees, names and options."""
import os

B = 16384

NAME_POOL = [
    "a", "a.b", "a0", "A", "b", "B.bin", "z", "zz", "ä", "é.txt", ".hidden", " lead",
    "trail ", "x y", "data.bin", "file1", "file10", "file2", "Z", "_", "-dash", "~t",
    "c#d", "p&q", "k=v", "100%", "plus+", "m.n.o", "日本", "a-", "a_", "a b", "README",
]
# names that are also metafile keys (a decoder / editor must never confuse payload names with fields)
KEY_NAMES = ["comment", "source", "private", "announce", "info", "pieces", "length", "files", "name", "path",
             "file tree", "piece layers", "url-list", "httpseeds", "attr", "meta version", "piece length",
             "announce-list", "creation date", "pieces root", "created by"]
NAME_POOL += KEY_NAMES
# unusual but valid names: control characters, backslash, 4-byte UTF-8, combining vs precomposed, dots, length
NAME_POOL += ["new\nline", "tab\tname", "back\\slash", "😀.bin", "e\u0301.txt", "a.", "..a", "...", "-", "--opt",
              "x" * 180, "UPPER", "upper", "a\u00a0b", "'q'", '"dq"', "*glob?", "[b]", "{c}", "$HOME", "~", "%s", "a,b", "a;b"]
DIR_POOL = ["a", "d", "dir", "sub", "A", "a.d", "z", "ä", "x y", "d1", "d2", "nested", "a0", ".h",
            "source", "comment", "info", "files", "path", "a-", "a 2", "a(1)"]


def size_class(size, pl):
    if size == 0:
        return "0"
    if size < B:
        return "<B"
    r = size % pl
    k = size // pl
    if size < pl:
        rb = size % B
        return "<P:" + ("B|" if rb == 0 else "B+1" if rb == 1 else "B-1" if rb == B - 1 else "r")
    kc = "1" if k == 1 else ("2^k" if k & (k - 1) == 0 else "k")
    if r == 0:
        return f"{kc}P"
    if r == 1:
        return f"{kc}P+1"
    if r == pl - 1:
        return f"{kc}P-1"
    if r % B == 0:
        return f"{kc}P+jB"
    return f"{kc}P+r"


def pick_size(rng, pl, maxp=6):
    """Boundary-biased size relative to block B and piece length pl."""
    c = rng.random()
    if c < 0.10:
        return 0
    if c < 0.22:
        return rng.choice([1, 2, 3, 5, 17, 100, rng.randint(1, 100)])
    if c < 0.34:
        return rng.choice([B - 1, B, B + 1, 2 * B - 1, 2 * B, 2 * B + 1, 3 * B, 3 * B + 1, 3 * B - 1])
    if c < 0.64:
        k = rng.choice([1, 1, 2, 2, 3, 3, 4, 5][:max(2, maxp + 2)])
        k = min(k, maxp)
        d = rng.choice([-1, 0, 1, 0, rng.randint(2, pl - 2), B, -B, B + 1, rng.randint(2, B)])
        return max(0, k * pl + d)
    if c < 0.74:
        return rng.choice([pl - 1, pl, pl + 1, pl + B, pl // 2, pl // 2 + 1])
    return rng.randint(1, maxp * pl)


def pick_pl_exp(rng, tier, lo=14, hi=None):
    hi = hi or (18 if tier == "quick" else 21)
    # bias to the small piece lengths: more pieces per byte hashed
    return rng.choice([14, 14, 14, 15, 15, 15, 16, 16, 17] + list(range(lo, hi + 1)))


def _names(rng, n, pool):
    pool = list(pool)
    rng.shuffle(pool)
    out = pool[:n]
    i = 0
    while len(out) < n:
        out.append(f"f{i:03d}")
        i += 1
    return out


def _gen_many(rng, pl, cs):
    """100-300 small files over a few nested directories (long listings, many pieces straddling many files)."""
    files = []
    n = rng.randint(100, 300)
    dirs = ["", "", "a/", "a/b/", "z/", "m/n/o/"]
    for i in range(n):
        files.append([f"{rng.choice(dirs)}f{i:04d}", rng.choice([0, 1, 3, 50, 200, 1000, rng.randint(0, 5000)]), cs + i])
    files.append(["big.bin", pl * rng.choice([1, 2, 3]) + rng.choice([0, 1, -1]), cs + n])
    return files


def _gen_deep(rng, pl, cs):
    """few files, directory depth up to 10, long path components."""
    files = []
    for i in range(rng.randint(2, 5)):
        depth = rng.randint(5, 10)
        comps = [rng.choice(["d", "dd", "x" * rng.choice([1, 40, 120]), "ä" * 20, "sub dir"]) + str(rng.randrange(3))
                 for _ in range(depth)]
        files.append(["/".join(comps) + f"/leaf{i}" + "n" * rng.choice([0, 100]), pick_size(rng, pl, 3), cs + i])
    return files


def gen_tree(rng, pl, tier="quick", layout=None, allow_single=True, min_files=1, nonempty_total=True,
             maxp=None, ascii_names=False):
    """Returns dict(name, single, files=[[rel, size, cseed]], dirs=[...], layout)."""
    maxp = maxp or (4 if pl >= 2 ** 17 else 6)
    layouts = ["single", "flat", "flat", "nested", "nested", "tiny", "empties", "dups"]
    if not allow_single:
        layouts = [l for l in layouts if l != "single"]
    if layout is None and rng.random() < (0.04 if tier == "quick" else 0.08):
        layout = rng.choice(["many", "deep", "many", "deep", "thousands", "abyss"])
    layout = layout or rng.choice(layouts)
    pool = [n for n in NAME_POOL if n.isascii()] if ascii_names else NAME_POOL
    dpool = [n for n in DIR_POOL if n.isascii()] if ascii_names else DIR_POOL
    name = rng.choice(["T", "payload", "my torrent", "dir.d", "x", "Ünï" if not ascii_names else "U", "a",
                       "...And Justice", "..notes", "x.torrent", " lead and trail "])
    cs = rng.randrange(1 << 30)
    files, dirs = [], []
    if layout == "single":
        size = pick_size(rng, pl, maxp) or rng.choice([1, pl, pl + 1])
        name = rng.choice(pool) if rng.random() < 0.5 else name + ".bin"
        return {"name": name, "single": True, "files": [[name, size, cs]], "dirs": [], "layout": layout}
    if layout == "many":
        files = _gen_many(rng, pl, cs)
    elif layout == "deep":
        files = _gen_deep(rng, pl, cs)
    elif layout == "thousands":
        # 1500-3000 files in a few hundred directories: listings, file lists and piece maps of real-world size
        nd = rng.randint(50, 300)
        files = [[f"d{i % nd:03d}/" * (1 + i % 3) + f"f{i:05d}", rng.choice([0, 1, 9, 100, 700, rng.randint(0, 3000)]), cs + i]
                 for i in range(rng.randint(1500, 3000))]
        files.append(["tail.bin", pl + rng.choice([0, 1, -1]), cs - 1])
    elif layout == "abyss":
        # directory depth 30-60 with short component names (the whole path stays far below PATH_MAX)
        files = []
        for i in range(rng.randint(2, 4)):
            depth = rng.randint(30, 60)
            files.append(["/".join(f"{chr(97 + (i + k) % 26)}{k % 7}" for k in range(depth)) + f"/leaf{i}",
                          pick_size(rng, pl, 3), cs + i])
    elif layout == "flat":
        n = rng.randint(max(min_files, 1), 8)
        for i, nm in enumerate(_names(rng, n, pool)):
            files.append([nm, pick_size(rng, pl, maxp), cs + i])
    elif layout == "nested":
        n = rng.randint(max(min_files, 2), 9)
        dnames = _names(rng, 4, dpool)
        fn = _names(rng, n, pool)
        used = set()
        for i in range(n):
            depth = rng.choice([0, 1, 1, 2, 2, 3, 4])
            comps = [rng.choice(dnames) for _ in range(depth)] + [fn[i] if rng.random() < 0.8 else rng.choice(fn)]
            rel = "/".join(comps)
            # a path may not be both file and dir
            bad = rel in used or any(u.startswith(rel + "/") or rel.startswith(u + "/") for u in used)
            if bad:
                rel = "/".join(comps[:-1] + [f"u{i}"])
                if rel in used or any(u.startswith(rel + "/") or rel.startswith(u + "/") for u in used):
                    continue
            used.add(rel)
            files.append([rel, pick_size(rng, pl, maxp), cs + i])
        if rng.random() < 0.2:
            dirs.append("emptydir")
    elif layout == "tiny":
        n = rng.randint(10, 40)
        for i in range(n):
            sub = rng.choice(["", "", "s/", "t/"])
            files.append([f"{sub}t{i:02d}", rng.choice([0, 1, 2, 7, 33, 99, rng.randint(1, 99), rng.randint(100, 3000)]), cs + i])
        if rng.random() < 0.5:
            files.append(["big", pick_size(rng, pl, maxp), cs + 99])
    elif layout == "empties":
        n = rng.randint(max(min_files, 3), 8)
        names = sorted(_names(rng, n, [p for p in pool if p.isascii()]))
        pattern = rng.choice(["start", "middle", "end", "two", "three", "mixed", "two-end", "lead2"])
        sizes = [pick_size(rng, pl, maxp) or 5 for _ in range(n)]
        if pattern == "start":
            sizes[0] = 0
        elif pattern == "lead2":
            sizes[0] = sizes[1] = 0
        elif pattern == "middle":
            sizes[n // 2] = 0
        elif pattern == "end":
            sizes[-1] = 0
        elif pattern == "two-end":
            sizes[-1] = sizes[-2] = 0
        elif pattern == "two":
            j = rng.randrange(n - 1)
            sizes[j] = sizes[j + 1] = 0
        elif pattern == "three":
            j = rng.randrange(n - 2)
            sizes[j] = sizes[j + 1] = sizes[j + 2] = 0
        else:
            for j in range(n):
                if rng.random() < 0.5:
                    sizes[j] = 0
        for i, nm in enumerate(names):
            files.append([nm, sizes[i], cs + i])
        layout = "empties:" + pattern
    elif layout == "dups":
        n = rng.randint(max(min_files, 2), 5)
        size = pick_size(rng, pl, maxp) or pl + 1
        for i, nm in enumerate(_names(rng, n, pool)):
            same = rng.random() < 0.6
            files.append([nm, size if same else pick_size(rng, pl, maxp), cs if same else cs + i])
    if not files:
        files.append(["only", pick_size(rng, pl, maxp) or 1, cs])
    if nonempty_total and sum(f[1] for f in files) == 0:
        files[rng.randrange(len(files))][1] = rng.choice([1, pl - 1, pl, pl + 1])
    links = []
    if rng.random() < 0.08 and layout not in ("many", "thousands", "abyss"):
        # hard links: several ordinary directory entries for one inode (regular files, not symlinks)
        existing = {f[0] for f in files}
        for _ in range(rng.choice([1, 1, 2])):
            tgt = rng.choice(files)
            d = os.path.dirname(rng.choice(files)[0])
            newrel = (d + "/" if d else "") + rng.choice(["hl-", "zz-hl-", "0hl-"]) + os.path.basename(tgt[0])
            if newrel in existing or any(e.startswith(newrel + "/") for e in existing):
                continue
            existing.add(newrel)
            files.append([newrel, tgt[1], tgt[2]])
            links.append([newrel, tgt[0]])
    return {"name": name, "single": False, "files": files, "dirs": dirs, "layout": layout, "links": links}


def add_dir_alias(rng, tree):
    """Adds a directory symbolic link that is a second name for a directory of the tree (sibling or cousin, never a
    cycle).  Returns True when the tree has a directory to alias."""
    if tree["single"]:
        return False
    dirs = sorted({"/".join(f[0].split("/")[:k]) for f in tree["files"] for k in range(1, f[0].count("/") + 1)})
    if not dirs or len(tree["files"]) > 200:
        return False
    target = rng.choice(dirs)
    parent = rng.choice([os.path.dirname(target), os.path.dirname(target), ""])
    existing = {f[0] for f in tree["files"]} | set(dirs) | set(tree["dirs"])
    for _ in range(4):
        nm = rng.choice(["0-alias", "zz-alias", "latest", "Mirror", "0", "~same"])
        newrel = (parent + "/" if parent else "") + nm
        if newrel in existing or (target + "/").startswith(newrel + "/"):
            continue
        tree.setdefault("links", []).append([newrel, target, "symdir"])
        tree["layout"] += "+dir-alias"
        return True
    return False


def add_file_alias(rng, tree):
    """Adds a symbolic link to one of the tree's regular files (README -> docs/README.txt), relative, inside the tree."""
    if tree["single"] or len(tree["files"]) > 200:
        return False
    dirs = sorted({"/".join(f[0].split("/")[:k]) for f in tree["files"] for k in range(1, f[0].count("/") + 1)})
    target = rng.choice(tree["files"])[0]
    parent = rng.choice([os.path.dirname(target), ""] + dirs)
    existing = {f[0] for f in tree["files"]} | set(dirs) | set(tree["dirs"]) | {l[0] for l in tree.get("links", ())}
    for _ in range(4):
        nm = rng.choice(["0-link", "zz-link", "latest.bin", "LINK", "~same"])
        newrel = (parent + "/" if parent else "") + nm
        if newrel in existing:
            continue
        tree.setdefault("links", []).append([newrel, target, "symfile"])
        tree["layout"] += "+file-alias"
        return True
    return False


def tree_root(base, tree):
    return os.path.join(base, tree["name"])


def tree_sig(tree, pl):
    return [tree["layout"], sorted({size_class(f[1], pl) for f in tree["files"]})]


URL_POOL = [
    "http://tracker.example.com/announce", "udp://t1.example.org:6969/announce",
    "https://example.net:443/ann?key=1&x=y", "http://a.b/c%20d", "http://ex.com/a+b",
    "http://exämple.com/ä", "udp://[::1]:80/announce", "http://x.y/#frag", "http://h/p=q",
    "wss://tracker.example/socket", "http://127.0.0.1:8080/announce", "http://tr.example/announce?tags=a,b",
]


def pick_urls(rng, lo=1, hi=3):
    if hi >= 2 and rng.random() < 0.02:
        # a very long list (public tracker lists have hundreds of entries), some of them very long URLs
        return [f"http://tracker{k}.example.org:{1024 + k}/announce" + ("/x" * 400 if k % 97 == 0 else "")
                for k in range(rng.randint(120, 300))]
    n = rng.randint(lo, hi)
    pool = list(URL_POOL)
    rng.shuffle(pool)
    return pool[:n]
