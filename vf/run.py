#!/venv/bin/python -B
"""Entry point:  run.py <Cxx> [--tier quick|thorough] [--replay file] [--n N]"""
import argparse
import importlib
import json
import os
import sys

sys.path.insert(0, os.path.dirname(os.path.dirname(os.path.abspath(__file__))))
sys.dont_write_bytecode = True

from vf import harness  # noqa: E402

REGISTRY = {
    "C01": ("vf.props.create_family", "C01"),
    "C02": ("vf.props.create_family", "C02"),
    "C03": ("vf.props.create_family", "C03"),
    "C15": ("vf.props.create_family", "C15"),
    "C10": ("vf.props.create_family", "C10"),
    "C04": ("vf.props.recheck_family", "C04"),
    "C05": ("vf.props.recheck_family", "C05"),
    "C16": ("vf.props.recheck_family", "C16"),
    "C06": ("vf.props.meta_family", "C06"),
    "C07": ("vf.props.meta_family", "C07"),
    "C11": ("vf.props.cli_family", "C11"),
    "C12": ("vf.props.cli_family", "C12"),
    "C20": ("vf.props.cli_family", "C20"),
    "C08": ("vf.props.env_family", "C08"),
    "C09": ("vf.props.env_family", "C09"),
    "C13": ("vf.props.rebuild_family", "C13"),
    "C14": ("vf.props.rebuild_family", "C14"),
    "C19": ("vf.props.rebuild_family", "C19"),
    "C17": ("vf.props.fs_family", "C17"),
    "C18": ("vf.props.fs_family", "C18"),
}


def load(prop):
    mod, name = REGISTRY[prop]
    return getattr(importlib.import_module(mod), name)


def main():
    ap = argparse.ArgumentParser()
    ap.add_argument("prop")
    ap.add_argument("--tier", default=None)
    ap.add_argument("--replay", default=None)
    ap.add_argument("--n", type=int, default=None)
    args = ap.parse_args()
    prop = args.prop.upper()
    os.environ.setdefault("PYTHONHASHSEED", "0")
    tier, seed = harness.tier_and_seed(args.tier)
    harness.import_repo()
    P = load(prop)
    if hasattr(P, "main"):
        return P.main(tier, seed, args)

    if args.replay:
        with open(args.replay) as fd:
            doc = json.load(fd)
        case = doc["case"]
        os.environ["VERIF_CHILD_OUTPUT"] = "1"
        res = harness.run_one(P.run, case, timeout=600)
        print(json.dumps(harness.jsonable(res), indent=1)[:20000])
        bad = [v for v in res.get("violations", [])]
        known = harness.load_known()
        unlisted = [v for v in bad if not ((fid := P.classify(case, v)) and fid in known)]
        if unlisted:
            print(f"VIOLATION property={prop} replay={args.replay}")
            return 1
        return 2 if "inconclusive" in res else 0

    n = args.n or harness.ncases(getattr(P, "quick", 0), getattr(P, "thorough", 0), tier)
    check = harness.Check(prop, tier, seed, getattr(P, "level", "exploration"))
    if hasattr(P, "gen_all"):
        cases = P.gen_all(harness.rng_for(prop, seed, "all"), tier)
    else:
        cases = [P.gen(harness.rng_for(prop, seed, i), tier, i) for i in range(n)]
    timeout = getattr(P, "timeout", 60) * (1 if tier == "quick" else 3)
    results = harness.run_cases(P.run, cases, timeout=timeout, label=prop)
    for case, res in zip(cases, results):
        check.absorb(case, res, P.classify)
    if hasattr(P, "post"):
        P.post(check, cases, results)
    rule = P.rule + (" " + P.rule_extra if getattr(P, "rule_extra", None) else "") + \
        " Every case runs under a terminal size / time zone / umask chosen from the case (environment:* counters)."
    return check.finish(rule, P.required, P.assumptions)


if __name__ == "__main__":
    sys.exit(main())
