"""Monitors installed inside the forked child: directory-enumeration
perturbation, filesystem audit recorder / veto, snapshots, anchored-line reach."""
import hashlib
import os
import random
import stat
import sys

# ------------------------------------------------------------------ listdir
_orig_listdir = os.listdir
_orig_scandir = os.scandir
_perm_stats = {"calls": 0, "nonsorted": 0}


class _ScandirWrap:
    def __init__(self, entries):
        self._it = iter(entries)

    def __iter__(self):
        return self

    def __next__(self):
        return next(self._it)

    def __enter__(self):
        return self

    def __exit__(self, *a):
        return False

    def close(self):
        pass


def install_enum_order(mode, seed=0):
    """mode: 'sorted' | 'reverse' | 'shuffle'.  Wraps os.listdir and os.scandir
    (Path.iterdir uses os.listdir on 3.12, os.walk uses os.scandir)."""

    def order(names, key, where):
        names = sorted(names, key=key)
        if mode == "reverse":
            names.reverse()
        elif mode == "shuffle":
            # keyed on the directory's CONTENT, not its location: scratch paths differ from run to run and a replay
            # must see the same permutation
            tag = "|".join(repr(key(n)) for n in names)
            random.Random(f"{seed}/{tag}").shuffle(names)
        _perm_stats["calls"] += 1
        if len(names) > 1 and names != sorted(names, key=key):
            _perm_stats["nonsorted"] += 1
        return names

    def listdir(path="."):
        return order(_orig_listdir(path), lambda n: os.fsencode(n), os.fspath(path))

    def scandir(path="."):
        with _orig_scandir(path) as it:
            entries = list(it)
        return _ScandirWrap(order(entries, lambda e: os.fsencode(e.name), os.fspath(path)))

    os.listdir = listdir
    os.scandir = scandir


def enum_stats():
    return dict(_perm_stats)


# -------------------------------------------------------------------- audit
WRITE_EVENTS = {
    "os.remove", "os.rename", "os.mkdir", "os.rmdir", "os.chmod", "os.chown",
    "os.truncate", "os.link", "os.symlink", "os.utime", "shutil.copyfile",
    "shutil.copymode", "shutil.copystat", "shutil.move", "shutil.rmtree",
    "shutil.copytree", "tempfile.mkstemp", "tempfile.mkdtemp", "os.mkfifo", "os.mknod",
    "os.setxattr", "os.removexattr",
}
_W_FLAGS = os.O_WRONLY | os.O_RDWR | os.O_CREAT | os.O_TRUNC | os.O_APPEND


class FsAudit:
    """Records every write-class filesystem event; optional veto predicate
    (called with (event, paths) -> True to block by raising PermissionError)."""

    def __init__(self):
        self.events = []
        self.details = []        # aligned with events: {"flags": int} for opens
        self.active = False
        self.veto = None
        self.installed = False
        self.vetoed = []

    def install(self):
        if not self.installed:
            sys.addaudithook(self._hook)
            self.installed = True

    def _hook(self, event, args):
        if not self.active:
            return
        rec = None
        if event == "open":
            path, mode, flags = args[0], args[1], args[2]
            if isinstance(flags, int) and flags & _W_FLAGS:
                if isinstance(path, int):
                    # a file OBJECT put around an already open descriptor (os.fdopen): no path is opened, created or
                    # truncated by this event - the os.open / mkstemp that produced the descriptor was recorded itself
                    rec = ("open-w", [], {"flags": 0, "fd": path})
                else:
                    rec = ("open-w", [path], {"flags": flags})
        elif event in WRITE_EVENTS:
            paths = [a for a in args if isinstance(a, (str, bytes, os.PathLike))]
            dirfds = [a for a in args if isinstance(a, int)]
            rec = (event, paths, {"ints": dirfds})
        if rec is None:
            return
        ev, paths, extra = rec
        norm = []
        for p in paths:
            try:
                p = os.fspath(p)
                if isinstance(p, bytes):
                    p = os.fsdecode(p)
                p = os.path.abspath(p)
                if p.startswith("//"):
                    p = "/" + p.lstrip("/")        # abspath keeps exactly two leading slashes; the kernel does not care
                norm.append(p)
            except Exception:
                norm.append(repr(p))
        self.events.append((ev, norm))
        self.details.append(extra)
        if self.veto is not None:
            self.active = False
            try:
                block = self.veto(ev, norm, extra)
            finally:
                self.active = True
            if block:
                self.vetoed.append((ev, norm))
                raise PermissionError(f"verif veto: {ev} {norm}")

    def start(self, veto=None):
        self.install()
        self.events = []
        self.details = []
        self.vetoed = []
        self.veto = veto
        self.active = True

    def stop(self):
        self.active = False
        return list(self.events)


AUDIT = FsAudit()


# ----------------------------------------------------------------- snapshot
def snapshot(root, content=True):
    """{relpath: (kind, size, sha256hex|None, mode)} for everything under root
    (root itself included as '.')."""
    out = {}
    root = os.path.abspath(root)

    def add(path, rel):
        try:
            st = os.lstat(path)
        except FileNotFoundError:
            return
        if stat.S_ISDIR(st.st_mode):
            out[rel] = ("dir", 0, None, stat.S_IMODE(st.st_mode))
            for name in sorted(_orig_listdir(path)):
                add(os.path.join(path, name), name if rel == "." else rel + "/" + name)
        elif stat.S_ISREG(st.st_mode):
            dig = None
            if content:
                h = hashlib.sha256()
                with open(path, "rb") as fd:
                    for chunk in iter(lambda: fd.read(1 << 20), b""):
                        h.update(chunk)
                dig = h.hexdigest()
            out[rel] = ("file", st.st_size, dig, stat.S_IMODE(st.st_mode))
        elif stat.S_ISLNK(st.st_mode):
            out[rel] = ("symlink", st.st_size, os.readlink(path), stat.S_IMODE(st.st_mode))
        else:
            out[rel] = ("other", st.st_size, None, stat.S_IMODE(st.st_mode))

    add(root, ".")
    return out


def snapdiff(a, b):
    """Returns dict(added=[..], removed=[..], changed=[..])"""
    added = sorted(k for k in b if k not in a)
    removed = sorted(k for k in a if k not in b)
    changed = sorted(k for k in a if k in b and a[k] != b[k])
    return {"added": added, "removed": removed, "changed": changed}


# -------------------------------------------------------------------- reach
class _Missing:
    """Stands for an anchored function that no longer exists under that name (renamed / removed by a refactoring)."""

    def __getattr__(self, k):
        return self


MISSING = _Missing()


class Tolerant:
    """getattr proxy used only to LOOK UP anchored functions for the reach monitor: a missing attribute yields
    MISSING instead of raising, so that a refactoring can never turn a check inconclusive."""

    def __init__(self, obj):
        object.__setattr__(self, "_o", obj)

    def __getattr__(self, k):
        import types
        try:
            v = getattr(self._o, k)
        except AttributeError:
            return MISSING
        if isinstance(v, (type, types.ModuleType)):
            return Tolerant(v)
        return v


class Reach:
    """Which lines of the anchored functions did this execution reach?
    Uses sys.monitoring LINE events, each location disabled after first hit."""

    TOOL = 4

    def __init__(self):
        self.codes = {}
        self.hits = {}
        self.on = False

    def start(self, funcs):
        """funcs: {label: function or code object}"""
        mon = sys.monitoring
        try:
            mon.use_tool_id(self.TOOL, "vf-reach")
        except ValueError:
            pass
        mon.register_callback(self.TOOL, mon.events.LINE, self._line)
        import types
        for label, fn in funcs.items():
            if isinstance(fn, _Missing):
                self.unresolved = getattr(self, "unresolved", []) + [label]
                continue
            code = None
            seen = 0
            # unwrap bound methods, functools wrappers and callable objects (a decorated function is still fine)
            while fn is not None and seen < 6:
                seen += 1
                if isinstance(fn, types.CodeType):
                    code = fn
                    break
                if hasattr(fn, "__code__"):
                    code = fn.__code__
                    break
                fn = getattr(fn, "__func__", None) or getattr(fn, "__wrapped__", None) or getattr(fn, "func", None) \
                    or getattr(type(fn), "__call__", None)
            if code is None:
                self.unresolved = getattr(self, "unresolved", []) + [label]
                continue            # reach is informational: a refactoring must never make the check inconclusive
            self.codes[code] = label
            self.hits[label] = set()
            mon.set_local_events(self.TOOL, code, mon.events.LINE)
        self.on = True

    def _line(self, code, line):
        label = self.codes.get(code)
        if label is not None:
            self.hits[label].add(line)
        return sys.monitoring.DISABLE

    def collect(self):
        out = {}
        for code, label in self.codes.items():
            total = len({ln for _, _, ln in code.co_lines() if ln is not None}) - 1
            out[label] = (sorted(self.hits[label]), max(total, 1))
        return out
