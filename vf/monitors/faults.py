"""Source-free fault injection for one operation under test.

* LineTracer  - sys.monitoring LINE events on all code objects of chosen
  modules; counts events (phase 1) or kills the process before the k-th line
  (phase 2).
* FsFaults    - wrappers around the filesystem primitives an implementation can
  use to replace a file (open for writing + write/flush/close on the returned
  object, os.open, os.remove/unlink, os.replace/rename, os.chmod, os.fsync,
  os.truncate, os.link); records the ordered operation trace (phase 1) or
  injects one fault at operation index k (phase 2): crash before / after,
  OSError instead of the operation, short write, crash after n bytes, error on
  close.
"""
import builtins
import errno
import io
import os
import sys
import types

CRASH_CODE = 77


def code_objects(module):
    seen, out = set(), []

    def walk(code):
        if code in seen:
            return
        seen.add(code)
        out.append(code)
        for c in code.co_consts:
            if isinstance(c, types.CodeType):
                walk(c)

    def visit(obj):
        if isinstance(obj, (types.FunctionType,)):
            if obj.__module__ == module.__name__:
                walk(obj.__code__)
        elif isinstance(obj, (staticmethod, classmethod)):
            visit(obj.__func__)
        elif isinstance(obj, type) and obj.__module__ == module.__name__:
            for v in vars(obj).values():
                visit(v)
    for v in vars(module).values():
        visit(v)
    return out


class LineTracer:
    TOOL = 3

    def __init__(self, modules):
        self.codes = []
        for m in modules:
            self.codes += code_objects(m)
        self.count = 0
        self.trace = []          # (filename tail, function, line) per event (phase 1)
        self.crash_at = None
        self.armed = False

    def _cb(self, code, line):
        if not self.armed:
            return
        self.count += 1
        if self.crash_at is None:
            self.trace.append((os.path.basename(code.co_filename), code.co_name, line))
        elif self.count == self.crash_at:
            os._exit(CRASH_CODE)

    def start(self, crash_at=None):
        mon = sys.monitoring
        try:
            mon.use_tool_id(self.TOOL, "vf-faults")
        except ValueError:
            pass
        self.crash_at = crash_at
        mon.register_callback(self.TOOL, mon.events.LINE, self._cb)
        for c in self.codes:
            mon.set_local_events(self.TOOL, c, mon.events.LINE)
        self.count = 0
        self.armed = True

    def stop(self):
        self.armed = False
        mon = sys.monitoring
        for c in self.codes:
            mon.set_local_events(self.TOOL, c, 0)


# ---------------------------------------------------------------------------
class _FileProxy:
    """Wraps a file object opened for writing."""

    def __init__(self, real, faults, name):
        object.__setattr__(self, "_real", real)
        object.__setattr__(self, "_faults", faults)
        object.__setattr__(self, "_name", name)

    def __getattr__(self, k):
        return getattr(self._real, k)

    def __enter__(self):
        self._real.__enter__()
        return self

    def __exit__(self, *a):
        self.close()
        return False

    def __iter__(self):
        return iter(self._real)

    def write(self, data):
        f = self._faults
        raw = isinstance(self._real, io.RawIOBase)
        # an unbuffered (raw) file object hands the data to write(2) once and reports how much was taken - like os.write
        idx = f.op("write", ("raw:" if raw else "") + self._name, len(data))
        act = f.action(idx)
        if act is None:
            return self._real.write(data)
        kind = act[0]
        if kind == "short-silent":
            if raw:
                n = min(act[1], len(data))
                return self._real.write(bytes(data)[:n]) if n else 0
            return self._real.write(data)       # a buffered writer retries by itself: nothing to inject here
        if kind == "crash-before":
            os._exit(CRASH_CODE)
        if kind == "error":
            raise OSError(act[1], os.strerror(act[1]), self._name)
        if kind in ("crash-after-bytes", "short-then-error"):
            n = min(act[1] if kind == "crash-after-bytes" else act[2], len(data))
            self._real.write(data[:n])
            self._real.flush()
            if kind == "crash-after-bytes":
                os._exit(CRASH_CODE)
            raise OSError(act[1], os.strerror(act[1]), self._name)
        r = self._real.write(data)
        if kind == "crash-after":
            self._real.flush()
            os._exit(CRASH_CODE)
        return r

    def flush(self):
        f = self._faults
        idx = f.op("flush", self._name)
        act = f.action(idx)
        if act and act[0] == "crash-before":
            os._exit(CRASH_CODE)
        if act and act[0] == "error":
            raise OSError(act[1], os.strerror(act[1]), self._name)
        r = self._real.flush()
        if act and act[0] == "crash-after":
            os._exit(CRASH_CODE)
        return r

    def close(self):
        if self._real.closed:
            return None
        f = self._faults
        idx = f.op("close", self._name)
        act = f.action(idx)
        if act and act[0] == "crash-before":
            os._exit(CRASH_CODE)
        if act and act[0] == "error":
            try:
                self._real.close()
            finally:
                raise OSError(act[1], os.strerror(act[1]), self._name)
        r = self._real.close()
        if act and act[0] == "crash-after":
            os._exit(CRASH_CODE)
        return r


_W = os.O_WRONLY | os.O_RDWR | os.O_CREAT | os.O_TRUNC | os.O_APPEND


class FsFaults:
    def __init__(self):
        self.ops = []            # (kind, path, extra)
        self.fault = None        # (op index, action tuple)
        self.saved = {}
        self.active = False
        self.fired = False

    def op(self, kind, path, extra=None):
        self.ops.append((kind, str(path), extra))
        return len(self.ops) - 1

    def action(self, idx):
        f = self.fault
        if f is None:
            return None
        if f[0] == "multi":
            # several faults in one run: the first one that applies to this operation
            for sub in f[1]:
                self.fault = sub
                try:
                    act = self.action(idx)
                finally:
                    self.fault = f
                if act is not None:
                    return act
            return None
        if f[0] == "match":
            # ("match", "kind|kind", nth, action): the nth operation of one of these kinds, whatever its index
            kinds = f[1].split("|")
            if self.ops[idx][0] in kinds and sum(1 for o in self.ops[:idx + 1] if o[0] in kinds) == f[2] + 1:
                self.fired = True
                return f[3]
            return None
        if f[0] == idx:
            self.fired = True
            return f[1]
        return None

    # generic wrapper for "one syscall" operations
    def _simple(self, kind, real):
        def wrapper(*a, **kw):
            if not self.active:
                return real(*a, **kw)
            idx = self.op(kind, a[0] if a else "", [str(x) for x in a[1:2]])
            act = self.action(idx)
            if act is None:
                return real(*a, **kw)
            if act[0] == "crash-before":
                os._exit(CRASH_CODE)
            if act[0] == "error":
                raise OSError(act[1], os.strerror(act[1]), str(a[0]) if a else None)
            r = real(*a, **kw)
            if act[0] == "crash-after":
                os._exit(CRASH_CODE)
            return r
        return wrapper

    def install(self):
        s = self.saved
        s["builtins.open"] = builtins.open
        s["io.open"] = io.open
        faults = self

        def open_(file, mode="r", *a, **kw):
            real = s["builtins.open"]
            if not faults.active or not any(c in mode for c in "wax+"):
                return real(file, mode, *a, **kw)
            idx = faults.op("open-w", file, mode)
            act = faults.action(idx)
            if act and act[0] == "crash-before":
                os._exit(CRASH_CODE)
            if act and act[0] == "error":
                raise OSError(act[1], os.strerror(act[1]), str(file))
            fobj = real(file, mode, *a, **kw)
            if act and act[0] == "crash-after":
                os._exit(CRASH_CODE)
            return _FileProxy(fobj, faults, str(file))
        builtins.open = open_
        io.open = open_
        s["os.open"] = os.open
        real_os_open = os.open

        def os_open(path, flags, *a, **kw):
            if not faults.active or not (flags & _W):
                return real_os_open(path, flags, *a, **kw)
            idx = faults.op("os.open-w", path, flags)
            act = faults.action(idx)
            if act and act[0] == "crash-before":
                os._exit(CRASH_CODE)
            if act and act[0] == "error":
                raise OSError(act[1], os.strerror(act[1]), str(path))
            fd = real_os_open(path, flags, *a, **kw)
            if act and act[0] == "crash-after":
                os._exit(CRASH_CODE)
            return fd
        os.open = os_open
        for name in SIMPLE_OPS:
            s["os." + name] = getattr(os, name)
            setattr(os, name, self._simple("os." + name, getattr(os, name)))
        s["os.write"] = os.write
        real_write = os.write

        def os_write(fd, data):
            if not faults.active:
                return real_write(fd, data)
            idx = faults.op("write", f"fd{fd}", len(data))
            act = faults.action(idx)
            if act is None:
                return real_write(fd, data)
            if act[0] == "crash-before":
                os._exit(CRASH_CODE)
            if act[0] == "error":
                raise OSError(act[1], os.strerror(act[1]))
            if act[0] == "short-silent":
                # write(2) may legitimately store fewer bytes than asked and say so only through its return value
                n = min(act[1], len(data))
                return real_write(fd, bytes(data)[:n]) if n else 0
            if act[0] in ("crash-after-bytes", "short-then-error"):
                n = min(act[1] if act[0] == "crash-after-bytes" else act[2], len(data))
                real_write(fd, bytes(data)[:n])
                if act[0] == "crash-after-bytes":
                    os._exit(CRASH_CODE)
                raise OSError(act[1], os.strerror(act[1]))
            r = real_write(fd, data)
            if act[0] == "crash-after":
                os._exit(CRASH_CODE)
            return r
        os.write = os_write
        # positional / vectored descriptor writes are writes too (crash, error, silently short)
        for name in ("pwrite", "writev"):
            if not hasattr(os, name):
                continue
            s["os." + name] = getattr(os, name)

            def make(real, name=name):
                def w(fd, data, *rest):
                    if not faults.active:
                        return real(fd, data, *rest)
                    size = len(data) if name == "pwrite" else sum(len(b) for b in data)
                    idx = faults.op("write", f"fd{fd}", size)
                    act = faults.action(idx)
                    if act is None:
                        return real(fd, data, *rest)
                    if act[0] == "crash-before":
                        os._exit(CRASH_CODE)
                    if act[0] == "error":
                        raise OSError(act[1], os.strerror(act[1]))
                    if act[0] in ("short-silent", "crash-after-bytes", "short-then-error"):
                        n = min(act[2] if act[0] == "short-then-error" else act[1], size)
                        flat = bytes(data) if name == "pwrite" else b"".join(bytes(b) for b in data)
                        r = (real(fd, flat[:n], *rest) if name == "pwrite" else real_write(fd, flat[:n])) if n else 0
                        if act[0] == "crash-after-bytes":
                            os._exit(CRASH_CODE)
                        if act[0] == "short-then-error":
                            raise OSError(act[1], os.strerror(act[1]))
                        return r
                    r = real(fd, data, *rest)
                    if act[0] == "crash-after":
                        os._exit(CRASH_CODE)
                    return r
                return w
            setattr(os, name, make(getattr(os, name)))

    def uninstall(self):
        s = self.saved
        builtins.open = s["builtins.open"]
        io.open = s["io.open"]
        os.open = s["os.open"]
        for name in SIMPLE_OPS:
            setattr(os, name, s["os." + name])
        os.write = s["os.write"]
        for name in ("pwrite", "writev"):
            if "os." + name in s:
                setattr(os, name, s["os." + name])


SIMPLE_OPS = ("remove", "unlink", "replace", "rename", "chmod", "fchmod", "fchown", "chown", "fsync", "fdatasync",
              "truncate", "ftruncate", "link", "symlink", "rmdir", "mkdir", "utime") + \
    tuple(n for n in ("sendfile", "copy_file_range", "splice") if hasattr(os, n))     # in-kernel data transfers (shutil.copyfile)
ERRNOS = {"EACCES": errno.EACCES, "ENOSPC": errno.ENOSPC, "EIO": errno.EIO}
