"""Thin drivers around the repository's API (always called inside a child)."""
import io
import os
import sys
import traceback


_SURROUNDINGS_DONE = []


def mod(name):
    """The torrentfile submodule (the package re-exports functions named like
    some submodules, so 'from torrentfile import recheck' is not the module)."""
    import importlib
    m = importlib.import_module("torrentfile." + name)
    if not _SURROUNDINGS_DONE:
        _SURROUNDINGS_DONE.append(True)
        _apply_surroundings(importlib)
    return m


def _apply_surroundings(importlib):
    """Process-level surroundings chosen per case by the harness (environment variables VF_VERBOSE / VF_HOOKS): what a
    host application or an earlier '-v' command may have left behind.  No property lets a result depend on them."""
    if os.environ.get("VF_VERBOSE") == "1":
        # exactly what '-v' does: root logger at DEBUG with a handler on stderr, package debug flag on
        try:
            importlib.import_module("torrentfile.cli").Config.activate_logger()
        except Exception:
            import logging
            logging.getLogger().setLevel(logging.DEBUG)
    if os.environ.get("VF_HOOKS") == "1":
        # observers that only look: they return None, like print or list.append
        seen = []
        try:
            importlib.import_module("torrentfile.recheck").Checker.register_callback(lambda *a, **k: seen.append(a) and None)
        except Exception:
            pass
        t = importlib.import_module("torrentfile.torrent")
        for cls in ("TorrentFile", "TorrentFileV2", "TorrentFileHybrid", "TorrentAssembler"):
            try:
                getattr(t, cls).set_callback(lambda *a, **k: seen.append(a) and None)
            except Exception:
                pass


def _mods():
    return tuple(mod(n) for n in ("cli", "commands", "edit", "rebuild", "recheck", "torrent", "utils"))


LIB_ROUTES = ("TorrentFile", "TorrentFileV2", "TorrentFileHybrid", "Assembler2", "Assembler3")
CLI_ROUTES = ("cli1", "cli2", "cli3")
ROUTE_VERSION = {"TorrentFile": 1, "cli1": 1, "TorrentFileV2": 2, "Assembler2": 2, "cli2": 2,
                 "TorrentFileHybrid": 3, "Assembler3": 3, "cli3": 3}


class Outcome:
    def __init__(self, raw=None, exc=None, tb=None, ret=None, outfile=None):
        self.raw, self.exc, self.tb, self.ret, self.outfile = raw, exc, tb, ret, outfile

    @property
    def ok(self):
        return self.exc is None

    def excname(self):
        return type(self.exc).__name__ if self.exc is not None else None


def cli_execute(argv, no_stderr=False):
    """Run torrentfile.cli.execute(argv); SystemExit is returned as exception.
    no_stderr: the process has no usable standard error (sys.stderr is None, as under pythonw or with fd 2 closed)."""
    cli = _mods()[0]
    saved = sys.stdout, sys.stderr
    if no_stderr:
        sys.stderr = None
    try:
        return Outcome(ret=cli.execute(list(argv)))
    except SystemExit as exc:
        return Outcome(exc=exc, tb=f"SystemExit({exc.code})")
    except BaseException as exc:  # noqa
        return Outcome(exc=exc, tb=traceback.format_exc())
    finally:
        sys.stdout, sys.stderr = saved


def create(route, path, outfile, piece_length=None, progress=1, announce=None, url_list=None,
           httpseeds=None, private=False, source=None, comment=None, align=False, cli_prefix=(), swallowed=None,
           magnet=False, pl_spelling=None, reuse=None):
    """Create a metafile through one of the routes; returns Outcome with raw bytes.
    swallowed: None | "announce" | "url_list" | "httpseeds" - the content path is not given on its own but as the
    last value of that list-valued option (the documented recovery in MetaFile.__init__)."""
    cli, commands, edit, rebuild, recheck, torrent, utils = _mods()
    if swallowed:
        base = {"announce": announce, "url_list": url_list, "httpseeds": httpseeds}[swallowed]
        if swallowed == "announce" and not base:
            base = ["http://tracker.invalid/announce"]
        base = list(base or []) + [path]
        if swallowed == "announce":
            announce = base
        elif swallowed == "url_list":
            url_list = base
        else:
            httpseeds = base
    try:
        if route in LIB_ROUTES:
            kw = dict(path=path, outfile=outfile, progress=progress, private=private, align=align)
            if outfile is None:
                del kw["outfile"]           # default location
            if swallowed:
                del kw["path"]
            if piece_length is not None:
                kw["piece_length"] = piece_length
            if announce:
                kw["announce"] = announce
            if url_list:
                kw["url_list"] = url_list
            if httpseeds:
                kw["httpseeds"] = httpseeds
            if source is not None:
                kw["source"] = source
            if comment is not None:
                kw["comment"] = comment
            if route == "TorrentFile":
                t = torrent.TorrentFile(**kw)
            elif route == "TorrentFileV2":
                t = torrent.TorrentFileV2(**kw)
            elif route == "TorrentFileHybrid":
                t = torrent.TorrentFileHybrid(**kw)
            elif route == "Assembler2":
                t = torrent.TorrentAssembler(meta_version="2", **kw)
            else:
                t = torrent.TorrentAssembler(meta_version="3", **kw)
            if reuse == "assemble-again":
                t.assemble()                    # the object is asked to assemble a second time before it writes
            out, _meta = t.write()
            if reuse == "write-again":
                out, _meta = t.write()          # ... or to write twice
        else:
            argv = list(cli_prefix) + ["create", "--meta-version", route[-1]] + (["-o", outfile] if outfile is not None else []) + \
                ["--prog", str(progress)]
            if piece_length is not None and pl_spelling == "equals":
                argv += ["--piece-length=" + str(piece_length)]
            elif piece_length is not None and pl_spelling == "abbrev":
                argv += ["--piece-l", str(piece_length)]
            elif piece_length is not None:
                argv += ["--piece-length", str(piece_length)]
            if private:
                argv.append("--private")
            if align:
                argv.append("--align")
            if source is not None:
                argv += ["--source", source]
            if comment is not None:
                argv += ["--comment", comment]
            if magnet:
                argv.append("--magnet")
            if not swallowed:
                argv.append(path)
            groups = []
            if announce:
                groups.append(("announce", ["--announce"] + list(announce)))
            if url_list:
                groups.append(("url_list", ["--web-seed"] + list(url_list)))
            if httpseeds:
                groups.append(("httpseeds", ["--http-seed"] + list(httpseeds)))
            groups.sort(key=lambda g: g[0] == swallowed)        # the swallowing flag goes last
            for _, g in groups:
                argv += g
            oc = cli_execute(argv)
            if not oc.ok:
                return oc
            out = oc.ret.outfile
        with open(out, "rb") as fd:
            return Outcome(raw=fd.read(), outfile=str(out))
    except BaseException as exc:  # noqa
        return Outcome(exc=exc, tb=traceback.format_exc())


def _as_number(oc):
    """A textual percentage ('100', '99.5%') is read as the number it denotes."""
    if oc.ok and isinstance(oc.ret, str):
        try:
            oc.ret = float(oc.ret.strip().rstrip("%"))
        except ValueError:
            pass
    return oc


def recheck_lib(metafile, content):
    recheck = _mods()[4]
    try:
        return _as_number(Outcome(ret=recheck.Checker(metafile, content).results()))
    except BaseException as exc:  # noqa
        return Outcome(exc=exc, tb=traceback.format_exc())


def recheck_lib_reused(metafile, content, between, partial=False):
    """One Checker object used twice: a first pass on the content as it is (optionally abandoned after the first
    piece), then `between()` changes the content, then the judged pass on the SAME object.
    Returns (first pass result or exception name, Outcome of the second pass)."""
    recheck = _mods()[4]
    try:
        chk = recheck.Checker(metafile, content)
        first = None
        try:
            if partial:
                it = chk.iter_hashes()
                next(it, None)
                del it
            else:
                first = _as_number(Outcome(ret=chk.results())).ret
        except BaseException as exc:  # noqa
            first = type(exc).__name__
        between()
        return first, _as_number(Outcome(ret=chk.results()))
    except BaseException as exc:  # noqa
        return None, Outcome(exc=exc, tb=traceback.format_exc())


def recheck_cli(metafile, content, spelling="recheck", prefix=()):
    return _as_number(cli_execute(list(prefix) + [spelling, metafile, content]))


def quiet_stdout():
    sys.stdout = io.StringIO()
    sys.stderr = io.StringIO()
