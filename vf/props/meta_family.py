"""C06 (canonical + structurally valid), C07 (edit touches only named fields)."""
import hashlib
import os

from .. import drive, gen, oracles
from ..harness import content, materialise
from ..monitors import env
from ..ref import bencode as rb
from ..ref import torrent as rt
from ..ref.torrent import v2_leaves

FIELDS = ["announce", "url-list", "httpseeds", "private", "comment", "source"]
INFO_FIELDS = {"private", "comment", "source"}
WORDS = ["hello", "a comment", "Ünï cødé", "x", "with 'quote'", "SRC", "100% & more", "日本語", "d3:fooe", "i1e"]


def small_tree(rng, version, multi_layers):
    """Cheap trees (pl fixed at 16 KiB or 32 KiB); multi_layers -> >= 2 files
    larger than one piece so that 'piece layers' has several keys."""
    exp = rng.choice([14, 14, 15])
    pl = 2 ** exp
    if multi_layers:
        n = rng.randint(2, 5)
        names = rng.sample(gen.NAME_POOL, n)
        names = [x for x in names if x != "source"] + ["src2"]
        files = [[f"m{i}" if rng.random() < 0.5 else (names[i] if rng.random() < 0.7 else "source/" + names[i]),
                  rng.randint(pl + 1, 3 * pl), rng.randrange(1 << 30)] for i in range(n)]
        if rng.random() < 0.5:
            files.append(["small", rng.randint(0, 200), rng.randrange(1 << 30)])
        tree = {"name": rng.choice(["T", "pay load", "x"]), "single": False, "files": files, "dirs": [],
                "layout": "multilayer"}
    else:
        tree = gen.gen_tree(rng, pl, "quick", maxp=2)
    return tree, exp


def gen_opts(rng):
    o = {}
    if rng.random() < 0.6:
        o["announce"] = gen.pick_urls(rng, 1, 3)
    if rng.random() < 0.35:
        o["url_list"] = gen.pick_urls(rng, 1, 3)
    if rng.random() < 0.3:
        o["httpseeds"] = gen.pick_urls(rng, 1, 2)
    if rng.random() < 0.3:
        o["private"] = True
    if rng.random() < 0.35:
        o["comment"] = rng.choice(WORDS)
    if rng.random() < 0.35:
        o["source"] = rng.choice(WORDS)
    return o


def gen_request(rng, route, allow_clear=True):
    """{field: ["set", value] | ["clear"]} ; unnamed fields absent."""
    req = {}
    k = rng.choice([1, 1, 1, 2, 2, 3, 6])
    for f in rng.sample(FIELDS, k):
        clear = allow_clear and rng.random() < 0.3
        if f in ("announce", "url-list", "httpseeds"):
            if clear and route == "lib":
                req[f] = ["clear"]
            else:
                urls = gen.pick_urls(rng, 1, 3)
                if route == "lib" and rng.random() < 0.4:
                    req[f] = ["set", " ".join(urls)]      # documented space separated string form
                else:
                    req[f] = ["set", urls]
        elif f == "private":
            if clear and route == "lib":
                req[f] = ["clear"]
            else:
                req[f] = ["set", True]
        else:
            req[f] = ["clear"] if clear else ["set", rng.choice(WORDS)]
    return req


def apply_edit(mpath, step):
    route, req = step["route"], step["req"]
    if route == "lib":
        args = {f: None for f in FIELDS}
        if step.get("omit_unnamed"):
            args = {}
        for f, r in req.items():
            args[f] = "" if r[0] == "clear" else r[1]
        edit = drive.mod("edit")
        try:
            edit.edit_torrent(mpath, args)
            return drive.Outcome(ret=True)
        except BaseException as exc:  # noqa
            import traceback
            return drive.Outcome(exc=exc, tb=traceback.format_exc())
    argv = ["edit", mpath]
    flag = {"announce": "--tracker", "url-list": "--web-seed", "httpseeds": "--http-seed",
            "comment": "--comment", "source": "--source"}
    tail = []
    for f, r in req.items():
        if f == "private":
            tail.append(["--private"])
        elif r[0] == "clear":
            tail.append([flag[f], ""])
        elif isinstance(r[1], list):
            tail.append([flag[f]] + r[1])
        else:
            tail.append([flag[f], r[1]])
    if step.get("flags_first"):
        scalar = ("--private", "--comment", "--source")
        argv = ["edit"] + [x for t in tail if t[0] in scalar for x in t] + [mpath] + \
               [x for t in tail if t[0] not in scalar for x in t]
    else:
        argv += [x for t in tail for x in t]
    return drive.cli_execute(argv)


# ------------------------------------------------------------------ structure
def check_structure(raw, version, counters):
    viol = []
    try:
        top, diags = rb.decode(raw)
    except rb.BencodeError as e:
        return [oracles.V("undecodable", error=str(e))]
    counters["files_strictly_decoded"] = counters.get("files_strictly_decoded", 0) + 1
    for d in diags:
        viol.append(oracles.V("non-canonical", diag=d))
    if top.kind != "dict":
        return viol + [oracles.V("top-not-dict")]
    info = top.get(b"info")
    if info is None or info.kind != "dict":
        return viol + [oracles.V("no-info-dict")]
    name, pl = info.get(b"name"), info.get(b"piece length")
    if name is None or name.kind != "str" or not name.value:
        viol.append(oracles.V("bad-name"))
    if pl is None or pl.kind != "int" or pl.value <= 0:
        return viol + [oracles.V("bad-piece-length")]
    pl = pl.value
    if version in (1, 3):
        has_len, has_files = b"length" in info, b"files" in info
        if has_len == has_files:
            viol.append(oracles.V("length-xor-files", length=has_len, files=has_files))
        pieces = info.get(b"pieces")
        if pieces is None or pieces.kind != "str" or len(pieces.value) % 20:
            viol.append(oracles.V("bad-pieces"))
        else:
            if has_files and info.get(b"files").kind == "list":
                try:
                    total = sum(l for _, l, _ in rt.v1_entries(info))
                except Exception as e:
                    viol.append(oracles.V("bad-files-entry", error=repr(e)))
                    total = None
            elif has_len and info.get(b"length").kind == "int":
                total = info.get(b"length").value
            else:
                total = None
            if total is not None and len(pieces.value) != 20 * (-(-total // pl)):
                viol.append(oracles.V("piece-count", hashes=len(pieces.value) / 20, total=total, pl=pl))
    if version in (2, 3):
        mv = info.get(b"meta version")
        if mv is None or mv.kind != "int" or mv.value != 2:
            viol.append(oracles.V("meta-version"))
        tree = info.get(b"file tree")
        layers = top.get(b"piece layers")
        if tree is None or tree.kind != "dict":
            viol.append(oracles.V("no-file-tree"))
        if layers is None or layers.kind != "dict":
            viol.append(oracles.V("no-piece-layers"))
        if tree is not None and tree.kind == "dict" and layers is not None and layers.kind == "dict":
            lay = {k: v for k, _, v in layers.value}
            if len(lay) >= 2:
                counters["cases_ge2_layer_keys"] = counters.get("cases_ge2_layer_keys", 0) + 1
            sizes = {}
            for comps, leaf in v2_leaves(tree):
                ln = leaf.get(b"length")
                root = leaf.get(b"pieces root")
                if ln is None or ln.kind != "int":
                    viol.append(oracles.V("leaf-length", path=comps))
                    continue
                if ln.value > 0:
                    if root is None or root.kind != "str" or len(root.value) != 32:
                        viol.append(oracles.V("leaf-root", path=comps))
                        continue
                    if ln.value > pl:
                        sizes[root.value] = ln.value
            for k, v in lay.items():
                if len(k) != 32 or v.kind != "str" or len(v.value) % 32:
                    viol.append(oracles.V("layer-entry-shape", key=k))
                elif k in sizes and len(v.value) != 32 * (-(-sizes[k] // pl)):
                    viol.append(oracles.V("layer-length", key=k, hashes=len(v.value) / 32, size=sizes[k], pl=pl))
            for k in sizes:
                if k not in lay:
                    viol.append(oracles.V("layer-missing", key=k))
    elif b"meta version" in info or b"piece layers" in top:
        viol.append(oracles.V("v1-with-v2-keys"))
    return viol


ROUTES = {1: ["TorrentFile", "cli1"], 2: ["TorrentFileV2", "Assembler2", "cli2"],
          3: ["TorrentFileHybrid", "Assembler3", "cli3"]}


def _make_original(case, scratch):
    tree = case["tree"]
    base = os.path.join(scratch, "in")
    root = os.path.join(base, tree["name"])
    if tree["single"]:
        materialise(base, [[tree["name"], tree["files"][0][1], tree["files"][0][2]]])
    else:
        materialise(root, tree["files"], tree["dirs"], tree.get("links", ()))
    mpath = os.path.join(scratch, "meta", "m.torrent")
    os.makedirs(os.path.dirname(mpath), exist_ok=True)
    if case.get("preexisting_output"):
        # the output path already holds a (longer) file, e.g. an earlier metafile that is being re-created in place
        with open(mpath, "wb") as fd:
            fd.write(b"d8:announce3:old4:infod4:name3:olde" + b"e" * 30 + content(7, 200000 if case["preexisting_output"] == "long" else 10))
    if case["origin"] == "tool":
        o = case["opts"]
        oc = drive.create(case["route"], root, mpath, piece_length=2 ** case["pl_exp"], progress=0,
                          announce=o.get("announce"), url_list=o.get("url_list"), httpseeds=o.get("httpseeds"),
                          private=o.get("private", False), source=o.get("source"), comment=o.get("comment"))
        return oc, mpath
    o = case["opts"]
    kw = dict(private=o.get("private", False), source=o.get("source"), comment=o.get("comment"),
              url_list=o.get("url_list"), httpseeds=o.get("httpseeds"))
    if o.get("announce"):
        kw["announce"] = o["announce"][0]
        kw["announce_list"] = [o["announce"]]
    if case.get("foreign_forms"):
        # spellings other clients use for the same fields: one seed as a plain string (BEP 19), an empty tier in the
        # tracker list, private = 0
        ff = case["foreign_forms"]
        if "url-list-str" in ff and kw.get("url_list"):
            kw["url_list"] = kw["url_list"][0]
        if "httpseeds-str" in ff and kw.get("httpseeds"):
            kw["httpseeds"] = kw["httpseeds"][0]
        if "empty-tier" in ff and kw.get("announce_list"):
            kw["announce_list"] = kw["announce_list"] + [[]]
        if "private-0" in ff and not kw.get("private"):
            kw.setdefault("extra_info", {})["private"] = 0
    if case.get("extra"):
        kw.setdefault("extra_info", {}).update({"x-custom": {"b": 2, "a": [1, 2]}, "zz": "end", "0first": 1})
        kw["extra_info"] = kw["extra_info"]
        kw["extra_top"] = {"created by": "ref", "creation date": 1, "nodes": [["h", 1]], "encoding": "UTF-8",
                           "0": "zero", "zzz": {"y": 1, "x": 2}}
    if tree["single"]:
        raw = rt.build(tree["name"], single=(tree["name"], content(tree["files"][0][2], tree["files"][0][1])),
                       pl=2 ** case["pl_exp"], version=case["version"], **kw)
    else:
        files = [(tuple(f[0].split("/")), content(f[2], f[1])) for f in sorted(tree["files"])]
        raw = rt.build(tree["name"], files=files, pl=2 ** case["pl_exp"], version=case["version"], **kw)
    with open(mpath, "wb") as fd:
        fd.write(raw)
    return drive.Outcome(raw=raw, outfile=mpath), mpath


def _gen_case(rng, tier, origins):
    version = rng.choice([1, 2, 3])
    multi = version != 1 and rng.random() < 0.6
    tree, exp = small_tree(rng, version, multi)
    origin = rng.choice(origins)
    hist = []
    for _ in range(rng.choice([0, 1, 1, 2, 3, 4, 6] if tier == "quick" else [1, 2, 3, 4, 6, 10, 20])):
        route = rng.choice(["lib", "cli"])
        hist.append({"route": route, "req": gen_request(rng, route), "omit_unnamed": rng.random() < 0.3,
                     "flags_first": rng.random() < 0.3})
    return {"tree": tree, "pl_exp": exp, "version": version, "origin": origin,
            "route": rng.choice(ROUTES[version]), "opts": gen_opts(rng), "extra": rng.random() < 0.5,
            "history": hist, "enum_seed": rng.randrange(1000),
            "preexisting_output": rng.choice([None, None, "long", "long", "short"]),
            "foreign_forms": [f for f in ("url-list-str", "httpseeds-str", "empty-tier", "private-0") if rng.random() < 0.5]
            if origin == "ref" and rng.random() < 0.35 else None}


def _reach():
    edit, torrent, commands = drive.mod("edit"), drive.mod("torrent"), drive.mod("commands")
    r = env.Reach()
    r.start({"edit.filter_empty": env.Tolerant(edit).filter_empty, "edit.edit_torrent": env.Tolerant(edit).edit_torrent,
             "MetaFile.sort_meta": env.Tolerant(torrent).MetaFile.sort_meta, "MetaFile.write": env.Tolerant(torrent).MetaFile.write,
             "commands.edit": env.Tolerant(commands).edit})
    return r


def _hist_shape(case):
    return [[s["route"], sorted((f, r[0], ("list" if r[0] == "set" and isinstance(r[1], list) else "scalar"))
                                for f, r in s["req"].items())] for s in case["history"]]


def _killed_edit(mpath):
    """Grandchild: an edit that makes the metafile much longer and dies right before the new file would be moved
    into place (or, for an implementation that writes in place, before its first write)."""
    from ..monitors import faults
    ff = faults.FsFaults()
    ff.install()
    ff.fault = ("match", "os.replace|os.rename", 0, ("crash-before",))
    ff.active = True
    edit = drive.mod("edit")
    edit.edit_torrent(mpath, {"announce": [f"http://tracker-{k}.example/announce/with/a/long/path" for k in range(40)],
                              "comment": "x" * 3000, "url-list": None, "httpseeds": None, "source": None, "private": None})
    ff.active = False
    return "edit completed without renaming anything"


# ---------------------------------------------------------------------- C06
class C06:
    rule_extra = ('Later additions: 12 % of the histories contain an edit attempt that is killed right before the new file is moved into place, followed by an edit that makes the file shorter; the output path may already hold a longer or shorter file.')
    id = "C06"
    quick, thorough = 1500, 30000
    timeout = 120
    rule = ("case = small tree x version x creator route x option subset (trackers, web/http seeds, comment, "
            "source, private), followed by a random history of 0-6 edits (library / CLI; set / clear); after "
            "create and after every edit the raw file is parsed by the strict reference decoder (key order, "
            "duplicates, redundant digits, trailing bytes) and checked against the per-version structural schema; "
            "non-trivial when v2/hybrid with >= 2 multi-piece files, or >= 1 edit, or >= 3 options; distinct by "
            "(version, route, option subset, #multi-piece files, edit history shape)")
    required = ("files_strictly_decoded", "decoded_after_edit", "cases_ge2_layer_keys", "edits_cli", "edits_lib",
                "created_over_a_longer_existing_file")
    assumptions = ("strict reference decoder (ref/bencode.py) implements the canonical form of BEP 3",)

    @staticmethod
    def gen(rng, tier, i):
        case = _gen_case(rng, tier, ["tool"])
        if rng.random() < 0.12:
            # one edit attempt of the history is KILLED (process dies between writing and installing the new file);
            # the edits after it include one that makes the file shorter
            case["killed_edit_before"] = rng.randint(0, len(case["history"]))
            case["history"] = case["history"] + [{"route": rng.choice(["lib", "cli"]), "omit_unnamed": False, "flags_first": False,
                                                  "req": {"comment": ["clear"], "announce": ["set", "http://t/a"],
                                                          "url-list": ["clear"]}}]
        return case

    @staticmethod
    def run(case, scratch):
        env.install_enum_order("shuffle", case["enum_seed"])
        reach = _reach()
        counters, viol = {}, []
        oc, mpath = _make_original(case, scratch)
        if not oc.ok:
            viol.append(oracles.V("create-raised", exc=oc.excname(), tb=oc.tb[-1200:]))
        else:
            for v in check_structure(oc.raw, case["version"], counters):
                v["detail"]["after"] = "create"
                viol.append(v)
            for n, step in enumerate(case["history"]):
                if case.get("killed_edit_before") == n:
                    from ..harness import fork_call
                    st, _ = fork_call(_killed_edit, mpath, timeout=60)
                    counters["killed_edit_attempts"] = 1
                    if st == "died":
                        counters["killed_edit_died_at_the_swap"] = 1
                eo = apply_edit(mpath, step)
                counters["edits_" + step["route"]] = counters.get("edits_" + step["route"], 0) + 1
                if not eo.ok:
                    viol.append(oracles.V("edit-raised", step=n, exc=eo.excname(), tb=(eo.tb or "")[-1200:]))
                    break
                try:
                    with open(mpath, "rb") as fd:
                        raw = fd.read()
                except OSError as e:
                    viol.append(oracles.V("metafile-missing-after-edit", step=n, error=repr(e)))
                    break
                counters["decoded_after_edit"] = counters.get("decoded_after_edit", 0) + 1
                for v in check_structure(raw, case["version"], counters):
                    v["detail"]["after"] = f"edit#{n}"
                    v["detail"]["request"] = step["req"]
                    viol.append(v)
        if case.get("preexisting_output") == "long":
            counters["created_over_a_longer_existing_file"] = 1
        nmulti = sum(1 for f in case["tree"]["files"] if f[1] > 2 ** case["pl_exp"])
        nontrivial = (case["version"] != 1 and nmulti >= 2) or len(case["history"]) >= 1 or len(case["opts"]) >= 3
        return {"violations": viol, "counters": counters, "reach": reach.collect(), "nontrivial": nontrivial,
                "evaluations": 1 + counters.get("decoded_after_edit", 0),
                "sig": [case["version"], case["route"], sorted(case["opts"]), min(nmulti, 3), _hist_shape(case)],
                "sample": {"version": case["version"], "route": case["route"], "options": case["opts"],
                           "files": [[f[0], f[1]] for f in case["tree"]["files"][:6]],
                           "history": case["history"][:3], "files_decoded": counters.get("files_strictly_decoded"),
                           "violations": len(viol)}}

    @staticmethod
    def classify(case, v):
        return None


# ---------------------------------------------------------------------- C07
def _raw_items(node, raw):
    return {k: raw[v.start:v.end] for k, _, v in node.value}


class EditModel:
    """Executable model of 'edit changes exactly the named fields'."""

    def __init__(self, raw):
        top, _ = rb.decode(raw)
        info = top.get(b"info")
        self.top = _raw_items(top, raw)
        del self.top[b"info"]
        self.info = _raw_items(info, raw)
        self.info_raw = raw[info.start:info.end]
        self.mask_announce_list = False

    def apply(self, req):
        for f, r in req.items():
            key = f.encode()
            if f in INFO_FIELDS:
                if r[0] == "clear":
                    self.info.pop(key, None)
                elif f == "private":
                    self.info[key] = b"i1e"
                else:
                    self.info[key] = rb.encode(r[1])
            elif f == "announce":
                if r[0] == "clear":
                    self.top.pop(b"announce", None)
                    self.mask_announce_list = True
                else:
                    urls = r[1].split() if isinstance(r[1], str) else list(r[1])
                    self.top[b"announce"] = rb.encode(urls[0])
                    self.top[b"announce-list"] = ("flat", urls)
                    self.mask_announce_list = False
            else:
                if r[0] == "clear":
                    self.top.pop(key, None)
                else:
                    urls = r[1].split() if isinstance(r[1], str) else list(r[1])
                    self.top[key] = rb.encode(urls)

    def compare(self, raw, req, counters):
        viol = []
        try:
            top, _ = rb.decode(raw)
            info = top.get(b"info")
            got_top = _raw_items(top, raw)
            got_top.pop(b"info")
            got_info = _raw_items(info, raw)
        except Exception as e:
            return [oracles.V("undecodable-after-edit", error=repr(e))]
        named = {f for f in req}
        for where, want, got in (("top", self.top, got_top), ("info", self.info, got_info)):
            for k in set(want) | set(got):
                if where == "top" and k == b"announce-list":
                    if self.mask_announce_list:
                        continue
                    w = want.get(k)
                    if isinstance(w, tuple):
                        node = top.get(k)
                        flat = None
                        if node is not None and node.kind == "list":
                            try:
                                flat = [u.value.decode() for tier in node.value for u in tier.value]
                            except Exception:
                                flat = None
                        if flat != w[1]:
                            viol.append(oracles.V("announce-list-wrong", want=w[1], got=flat))
                        continue
                w, g = want.get(k), got.get(k)
                if w != g:
                    fieldname = k.decode("latin-1")
                    kind = "named-field-wrong" if fieldname in named else "unnamed-field-changed"
                    viol.append(oracles.V(kind, where=where, key=fieldname,
                                          want=None if w is None else w[:80], got=None if g is None else g[:80]))
        if named and named <= {"announce", "url-list", "httpseeds"}:
            counters["infohash_checks"] = counters.get("infohash_checks", 0) + 1
            new_raw = raw[info.start:info.end]
            if hashlib.sha1(new_raw).digest() != hashlib.sha1(self.info_raw).digest() or \
                    hashlib.sha256(new_raw).digest() != hashlib.sha256(self.info_raw).digest():
                viol.append(oracles.V("infohash-changed-by-tracker-or-seed-edit", request=req,
                                      info_keys_before=sorted(k.decode("latin-1") for k in self.info),
                                      info_keys_after=sorted(k.decode("latin-1") for k in got_info)))
        self.info_raw = raw[info.start:info.end]
        return viol


class C07:
    id = "C07"
    quick, thorough = 1500, 30000
    timeout = 120
    rule = ("case = original metafile (tool-made or reference-encoded with extra unknown keys; v1/v2/hybrid; "
            "random presence of each optional field) x history of 1-6 edit requests over the six fields (each "
            "unnamed / set to string or list / cleared) via edit_torrent and via the CLI; after every step the "
            "file is span-decoded and compared with the executable edit model: unnamed keys byte-identical, named "
            "keys hold the last value or are gone, info-hash (SHA-1 and SHA-256 of the raw info span) unchanged "
            "when only trackers/seeds were named; non-trivial when >= 1 edit leaves >= 1 optional field unnamed; "
            "distinct by (version, origin, presence mask, history shape)")
    required = ("edits_judged_lib", "edits_judged_cli", "infohash_checks", "clears_judged", "ref_originals")
    assumptions = ("originals are canonical (tool-made or reference encoder)",
                   "URL values contain no whitespace; list-valued CLI flags have no clearing spelling",
                   "after clearing the tracker the announce-list is not judged until the next set")

    @staticmethod
    def gen(rng, tier, i):
        c = _gen_case(rng, tier, ["tool", "ref"])
        if not c["history"]:
            route = rng.choice(["lib", "cli"])
            c["history"] = [{"route": route, "req": gen_request(rng, route), "omit_unnamed": False,
                             "flags_first": False}]
        return c

    @staticmethod
    def run(case, scratch):
        env.install_enum_order("shuffle", case["enum_seed"])
        reach = _reach()
        counters, viol = {}, []
        oc, mpath = _make_original(case, scratch)
        if not oc.ok:
            return {"inconclusive": "original could not be created: " + oc.excname(), "traceback": oc.tb}
        if case["origin"] == "ref":
            counters["ref_originals"] = 1
        model = EditModel(oc.raw)
        judged = 0
        for n, step in enumerate(case["history"]):
            eo = apply_edit(mpath, step)
            if not eo.ok:
                viol.append(oracles.V("edit-raised", step=n, request=step["req"], exc=eo.excname(),
                                      tb=(eo.tb or "")[-1200:]))
                break
            try:
                with open(mpath, "rb") as fd:
                    raw = fd.read()
            except OSError as e:
                viol.append(oracles.V("metafile-missing-after-edit", step=n, error=repr(e)))
                break
            model.apply(step["req"])
            vs = model.compare(raw, step["req"], counters)
            for v in vs:
                v["detail"]["step"] = n
                v["detail"]["route"] = step["route"]
            viol += vs
            judged += 1
            counters["edits_judged_" + step["route"]] = counters.get("edits_judged_" + step["route"], 0) + 1
            if any(r[0] == "clear" for r in step["req"].values()):
                counters["clears_judged"] = counters.get("clears_judged", 0) + 1
            if vs:
                break
        mask = sorted(case["opts"])
        return {"violations": viol, "counters": counters, "reach": reach.collect(),
                "nontrivial": any(len(s["req"]) < 6 for s in case["history"]), "evaluations": max(judged, 1),
                "sig": [case["version"], case["origin"], mask, _hist_shape(case)],
                "sample": {"version": case["version"], "origin": case["origin"], "options_present": mask,
                           "history": case["history"][:3], "edits_judged": judged, "violations": len(viol)}}

    @staticmethod
    def classify(case, v):
        return None
