"""C13 (rebuild restores the complete torrent), C14 (rebuild only adds verified
copies), C19 (rebuild never writes outside the destination)."""
import hashlib
import os
import random
import shutil

from .. import drive, gen, oracles
from ..harness import content, materialise
from ..monitors import env
from ..ref import bencode as rb
from ..ref import torrent as rt

TOOL_ROUTES = {1: ["TorrentFile", "cli1"], 2: ["TorrentFileV2", "Assembler2"], 3: ["TorrentFileHybrid", "Assembler3"]}
JUNK = ["notes.txt", "thumbs.db", "other.bin", "x", "readme"]


def gen_scenario(rng, tier, prepop_kinds=()):
    ntor = rng.choice([1, 1, 1, 2, 3])
    exp = rng.choice([14, 14, 15, 16])
    pl = 2 ** exp
    torrents = []
    # names that merely LOOK like path trouble are ordinary names: leading dots, dashes, a tilde, 'con', spaces at the ends
    names = rng.sample(["T", "payload", "my torrent", "dir.d", "x", "Ünï", "a", "...And Justice", "..notes", ".hidden",
                        "-dash", "~home", "a..b", " lead and trail ", "back\\slash", "x.torrent"], ntor)
    for k in range(ntor):
        version = rng.choice([1, 2, 3])
        layout = rng.choice(["single", "flat", "flat", "nested", "nested", "empties", "boundary", "samebase"])
        c = rng.random()
        if c < 0.06:
            layout = "large"
        elif c < 0.075:
            layout = "huge"
        elif c < 0.095:
            layout = "swarm"
        elif c < 0.125:
            layout = "utf8hash"
        elif c < 0.15 and not prepop_kinds:
            layout, version = "cluster", 1
        if layout == "cluster":
            # a dozen small files inside ONE v1 piece, each with a same-named same-sized decoy (added below): the right
            # combination of candidates is one of several thousand
            n = rng.randint(11, 13)
            files = [[f"c/{j:02d}.dat", rng.choice([60, 100, 300, 7]), rng.randrange(1 << 30)] for j in range(n)]
            files.append(["z-tail.bin", rng.choice([pl, 100]), rng.randrange(1 << 30)])
            tree = {"name": names[k], "single": False, "files": files, "dirs": [], "layout": "cluster"}
        elif layout == "boundary":
            n = rng.randint(2, 5)
            files = [[f"b{j}", rng.choice([pl, 2 * pl, 3 * pl, pl, 2 * pl + rng.choice([0, 0, 9, 1]), 77]),
                      rng.randrange(1 << 30)] for j in range(n)]
            tree = {"name": names[k], "single": False, "files": files, "dirs": [], "layout": "boundary"}
        elif layout == "huge":
            # one file of 9-11 MiB (copy buffers, chunked / resumed copies, thousands of blocks)
            files = [["sub/huge.bin", rng.choice([9 << 20, (10 << 20) + 12345, (11 << 20) - 1, (8 << 20) + 4096 + 7]),
                      rng.randrange(1 << 30)], ["small.txt", rng.choice([0, 40000, 77]), rng.randrange(1 << 30)]]
            tree = {"name": names[k], "single": False, "files": files, "dirs": [], "layout": "huge"}
        elif layout == "swarm":
            # well over a thousand tiny files: a single piece spans more than a thousand of them
            n = rng.randint(1050, 1800)
            files = [[f"t/{j % 7}/{j:05d}.txt", rng.choice([1, 2, 5, 9, 12]), rng.randrange(1 << 30)] for j in range(n)]
            files.append(["tail.bin", rng.choice([pl, 100, pl + 1]), rng.randrange(1 << 30)])
            tree = {"name": names[k], "single": False, "files": files, "dirs": [], "layout": "swarm"}
        elif layout == "large":
            files = [["sub/big.bin", rng.choice([1 << 20, (1 << 20) + 12345, 3 * (1 << 20) + 7, 2 * (1 << 20)]) +
                      rng.choice([0, 1, 4096]), rng.randrange(1 << 30)], ["small.txt", rng.choice([0, 40000, 77]), rng.randrange(1 << 30)]]
            tree = {"name": names[k], "single": False, "files": files, "dirs": [], "layout": "large"}
        elif layout == "utf8hash":
            # hash strings that are valid UTF-8 (a lenient decoder hands them over as text): SHA-1 of the whole
            # single-piece payload for v1, SHA-256 root of a one-block file for v2 / hybrid
            from .recheck_family import UTF8_SHA1_CONTENT, UTF8_SHA256_CONTENT
            raw = "raw:" + (UTF8_SHA1_CONTENT if version == 1 else UTF8_SHA256_CONTENT)
            if version == 1:
                tree = {"name": names[k] + ".bin", "single": True, "files": [[names[k] + ".bin", len(raw) - 4, raw]],
                        "dirs": [], "layout": "utf8hash"}
            else:
                tree = {"name": names[k], "single": False, "dirs": [], "layout": "utf8hash",
                        "files": [["u.bin", len(raw) - 4, raw], ["other", 20000, rng.randrange(1 << 30)]]}
        elif layout == "samebase":
            size = rng.choice([5, pl, pl + 7, 20000])
            files = [["a/x", size, rng.randrange(1 << 30)], ["b/x", size if rng.random() < 0.6 else size + 3,
                                                              rng.randrange(1 << 30)],
                     ["c/y", gen.pick_size(rng, pl, 3), rng.randrange(1 << 30)]]
            if rng.random() < 0.5:
                files.append(["x", rng.choice([size, 9]), rng.randrange(1 << 30)])
            tree = {"name": names[k], "single": False, "files": files, "dirs": [], "layout": "samebase"}
        else:
            tree = gen.gen_tree(rng, pl, tier, layout=layout, maxp=3, ascii_names=rng.random() < 0.5)
            tree["name"] = names[k] if not tree["single"] else names[k] + ".bin"
            if tree["single"]:
                tree["files"][0][0] = tree["name"]
        enc = ["tool", rng.choice(TOOL_ROUTES[version])] if rng.random() < 0.5 else ["ref", "plain"]
        torrents.append({"tree": tree, "version": version, "encoder": enc,
                         "edited": rng.choice(["lib", "cli"]) if enc[0] == "tool" and rng.random() < 0.3 else None})
    nsearch = rng.choice([1, 1, 2, 3])
    decoys = []
    if rng.random() < 0.6:
        for _ in range(rng.randint(1, 3)):
            t = rng.randrange(ntor)
            f = rng.randrange(len(torrents[t]["tree"]["files"]))
            decoys.append({"torrent": t, "file": f, "kind": rng.choice(["same-size", "same-size", "diff-size", "same-size-prefix"]),
                           "cseed": rng.randrange(1 << 30), "dir": rng.randrange(nsearch)})
    for t, tt in enumerate(torrents):
        if tt["tree"]["layout"] == "cluster":
            decoys += [{"torrent": t, "file": f, "kind": "same-size", "cseed": rng.randrange(1 << 30), "dir": rng.randrange(nsearch)}
                       for f in range(len(tt["tree"]["files"]) - 1)]
    prepop = []
    for kind in prepop_kinds:
        t = rng.randrange(ntor)
        f = rng.randrange(len(torrents[t]["tree"]["files"]))
        big = [(ti, 0) for ti, tt in enumerate(torrents) if tt["tree"]["layout"] in ("large", "huge")]
        if big and kind in ("shorter", "shorter-wrong", "wrong"):
            t, f = big[0]
        prepop.append({"torrent": t, "file": f, "kind": kind, "cseed": rng.randrange(1 << 30)})
    return {"pl_exp": exp, "torrents": torrents, "nsearch": nsearch, "decoys": decoys, "prepop": prepop,
            "junk": rng.random() < 0.7, "seed": rng.randrange(1 << 30), "enum": rng.choice(["sorted", "reverse", "shuffle", "shuffle"]),
            "via": rng.choice(["lib", "lib", "cli"]), "meta_as_dir": ntor > 1 and rng.random() < 0.5,
            "search_as_file": rng.random() < 0.15, "two_phase": rng.random() < 0.15,
            "spell_paths": rng.choice(["trailing-slash", "dot-segment", "double-sep", "dotdot", "relative"])
            if rng.random() < 0.15 else None,
            "repeats": 1}


def _rel_of(tree, f):
    return f[0]


def build_world(case, scratch):
    """Materialise originals, metafiles, search dirs (scattered copies, decoys,
    junk) and the pre-populated destination.  Returns a dict describing it."""
    rng = random.Random(case["seed"])
    pl = 2 ** case["pl_exp"]
    world = {"metas": [], "search": [], "dest": os.path.join(scratch, "dest"), "decoy_digests": {},
             "placed_expect": {}, "genuine": {}}
    metadir = os.path.join(scratch, "meta")
    os.makedirs(metadir)
    for i in range(case["nsearch"]):
        d = os.path.join(scratch, "search", f"s{i}")
        os.makedirs(d)
        world["search"].append(d)
    for k, tor in enumerate(case["torrents"]):
        tree = tor["tree"]
        base = os.path.join(scratch, "orig", str(k))
        root = os.path.join(base, tree["name"])
        if tree["single"]:
            materialise(base, [[tree["name"], tree["files"][0][1], tree["files"][0][2]]])
        else:
            materialise(root, tree["files"], tree["dirs"], tree.get("links", ()))
        mpath = os.path.join(metadir, f"t{k}.torrent")
        if tor["encoder"][0] == "tool":
            oc = drive.create(tor["encoder"][1], root, mpath, piece_length=pl, progress=0)
            if not oc.ok:
                return {"error": "create failed: " + oc.excname() + oc.tb[-800:]}
            raw = oc.raw
            if tor.get("edited"):
                # pipeline: created, then edited (trackers / seeds / comment), then rebuilt from
                from .meta_family import apply_edit
                eo = apply_edit(mpath, {"route": tor["edited"], "req": {"announce": ["set", ["http://t.example/a"]],
                                                                       "comment": ["set", "edited before rebuild"],
                                                                       "url-list": ["set", ["http://w.example/x"]]}})
                if not eo.ok:
                    return {"error": "edit failed: " + eo.excname()}
                with open(mpath, "rb") as fd:
                    raw = fd.read()
                world["edited_metafiles"] = world.get("edited_metafiles", 0) + 1
        else:
            if tree["single"]:
                raw = rt.build(tree["name"], single=(tree["name"], content(tree["files"][0][2], tree["files"][0][1])),
                               pl=pl, version=tor["version"], v2_single_length=rng.random() < 0.5)
            else:
                files = [(tuple(f[0].split("/")), content(f[2], f[1])) for f in sorted(tree["files"])]
                raw = rt.build(tree["name"], files=files, pl=pl, version=tor["version"])
            with open(mpath, "wb") as fd:
                fd.write(raw)
        world["metas"].append({"path": mpath, "raw": raw, "root": root, "tree": tree, "version": tor["version"]})
        # scatter copies by basename
        for f in tree["files"]:
            rel = f[0]
            src = root if tree["single"] else os.path.join(root, rel)
            sd = rng.choice(world["search"])
            if case.get("search_as_file") and "loose_file" not in world:
                # this copy lives outside every search directory and is named directly as a search path
                sd = os.path.join(scratch, "loose")
            depth = rng.choice([0, 1, 1, 2, 3])
            sub = [rng.choice(["k", "l", "m", "deep", "x1"]) + str(rng.randrange(100)) for _ in range(depth)]
            target = os.path.join(sd, *sub, os.path.basename(rel))
            n = 0
            while os.path.exists(target):
                n += 1
                target = os.path.join(sd, *sub, f"alt{n}", os.path.basename(rel))
            os.makedirs(os.path.dirname(target), exist_ok=True)
            shutil.copyfile(src, target)
            if case.get("search_as_file") and "loose_file" not in world:
                world["loose_file"] = target
            with open(src, "rb") as fd:
                dig = hashlib.sha256(fd.read()).hexdigest()
            world["genuine"].setdefault(os.path.basename(rel), set()).add(dig)
            full = tree["name"] if tree["single"] else os.path.join(tree["name"], rel)
            world["placed_expect"][full] = (f[1], dig)
            world.setdefault("copies", []).append((target, f[1]))
    for d in case["decoys"]:
        tor = case["torrents"][d["torrent"]]
        f = tor["tree"]["files"][d["file"]]
        size = f[1] if d["kind"] == "same-size" else f[1] + 1 + (d["cseed"] % 50)
        if size == 0:
            continue
        data = content(d["cseed"], size)
        if d["kind"] == "same-size-prefix":
            # same name, same size, identical beginning (one byte / up to the next piece boundary / one more piece),
            # every later byte different: "a same-named file with different content" that a first-piece check accepts
            good = content(f[2], f[1])
            keep = min(len(good) - 1, max(1, d["cseed"] % 3 * pl + (d["cseed"] >> 3) % pl))
            data = good[:keep] + bytes((b % 255) + 1 for b in good[keep:])
            size = len(data)
            if len(good) < 2:
                continue
        if d["kind"] == "same-size" and data == content(f[2], f[1]):
            data = bytes([(data[0] % 255) + 1]) + data[1:]      # a decoy must differ (1-byte files collide 1 in 255)
        sd = world["search"][d["dir"]]
        target = os.path.join(sd, "decoy" + str(d["cseed"] % 1000), os.path.basename(f[0]))
        os.makedirs(os.path.dirname(target), exist_ok=True)
        with open(target, "wb") as fd:
            fd.write(data)
        if d["kind"] in ("same-size", "same-size-prefix"):
            world["decoy_digests"][hashlib.sha256(data).hexdigest()] = target
        if d["kind"] == "same-size-prefix":
            world["prefix_decoys"] = world.get("prefix_decoys", 0) + 1
    if case["junk"]:
        for sd in world["search"]:
            for j in rng.sample(JUNK, 2):
                p = os.path.join(sd, rng.choice(["", "junk"]), j)
                os.makedirs(os.path.dirname(p), exist_ok=True)
                if os.path.exists(p):
                    continue
                with open(p, "wb") as fd:
                    fd.write(content(rng.randrange(1000), rng.randint(0, 3000)))
    # genuine files of other torrents with the same basename+size are decoys for this one only if bytes differ;
    # they are listed so that "placed == some search file with that basename" can be evaluated
    world["search_files"] = {}
    for sd in world["search"] + ([os.path.join(scratch, "loose")] if os.path.isdir(os.path.join(scratch, "loose")) else []):
        for dp, _, fs in os.walk(sd):
            for fn in fs:
                with open(os.path.join(dp, fn), "rb") as fd:
                    world["search_files"].setdefault(fn, set()).add(hashlib.sha256(fd.read()).hexdigest())
    # pre-populated destination
    world["prepop"] = {}
    for p in case["prepop"]:
        m = world["metas"][p["torrent"]]
        f = m["tree"]["files"][p["file"]]
        full = m["tree"]["name"] if m["tree"]["single"] else os.path.join(m["tree"]["name"], f[0])
        target = os.path.join(world["dest"], full)
        if os.path.exists(target) or f[1] < 2 and p["kind"] in ("shorter", "shorter-wrong"):
            continue
        os.makedirs(os.path.dirname(target), exist_ok=True)
        if p["kind"] == "correct":
            data = content(f[2], f[1])
        elif p["kind"] == "wrong":
            data = content(p["cseed"], f[1])
            if data == content(f[2], f[1]) and data:
                data = bytes([(data[0] % 255) + 1]) + data[1:]
        elif p["kind"] == "shorter":
            data = content(f[2], f[1])[:max(0, f[1] - 1 - p["cseed"] % max(1, f[1]))]
        elif p["kind"] == "shorter-wrong":
            data = content(p["cseed"], max(1, f[1] - 1 - p["cseed"] % max(1, f[1])))     # not a prefix of the genuine file
            if f[1] > (1 << 20) + 10:
                data = content(p["cseed"], f[1] - 1 - p["cseed"] % (f[1] - (1 << 20) - 1))   # keeps >= 1 MiB of wrong bytes
            if f[1] > (8 << 20) + 10 and p["cseed"] % 3:
                data = content(p["cseed"], f[1] - 1 - p["cseed"] % (f[1] - (8 << 20) - 1))   # keeps >= 8 MiB of wrong bytes
        else:  # unrelated
            target = os.path.join(world["dest"], m["tree"]["name"] if not m["tree"]["single"] else "", "unrelated.dat")
            os.makedirs(os.path.dirname(target), exist_ok=True)
            data = content(p["cseed"], 123)
        with open(target, "wb") as fd:
            fd.write(data)
        world["prepop"][os.path.relpath(target, world["dest"])] = (p["kind"], len(data), f[1])
    return world


def run_rebuild(case, world, captured):
    rebuild = drive.mod("rebuild")
    orig_index = getattr(rebuild, "_index_contents", None)     # observation only: absent after a refactoring -> no spy

    def spy(contents, filenames):
        m = orig_index(contents, filenames)
        try:
            captured["filemap"] = {k: list(v) for k, v in m.items()}
        except Exception:
            pass
        return m
    if orig_index is not None:
        rebuild._index_contents = spy
    metas = [m["path"] for m in world["metas"]]
    if case.get("meta_as_dir"):
        metas = [os.path.dirname(metas[0])]
    search = list(world["search"])
    if case.get("search_as_file") and world.get("loose_file"):
        search.append(world["loose_file"])          # a search path may also name one file directly
    dest = world["dest"]
    sp = case.get("spell_paths")
    if sp:
        # the same directories as a user may type them
        def respell(p, how):
            if not os.path.isdir(p):
                return p
            parent, base = os.path.split(p)
            return {"trailing-slash": p + "/", "dot-segment": os.path.join(parent, ".", base),
                    "double-sep": parent + "//" + base, "dotdot": os.path.join(p, "..", base),
                    "relative": os.path.relpath(p)}[how]
        if sp == "relative":
            os.chdir(os.path.dirname(dest))
        os.makedirs(dest, exist_ok=True)
        dest = respell(dest, sp)
        search = [respell(x, sp) for x in search]
        metas = [respell(x, sp) for x in metas]
        captured["paths_respelled"] = True
    try:
        if case["via"] == "cli":
            oc = drive.cli_execute(["rebuild", "-m"] + metas + ["-c"] + search + ["-d", dest])
        else:
            try:
                if case.get("reuse_assembler"):
                    # ONE Assembler object serves every rebuild of the case (kept in `world`)
                    asm = world.get("_assembler")
                    if asm is None:
                        asm = world["_assembler"] = rebuild.Assembler(metas, search, dest)
                    else:
                        captured["assembler_reused"] = True
                    oc = drive.Outcome(ret=asm.assemble_torrents())
                else:
                    oc = drive.Outcome(ret=rebuild.Assembler(metas, search, dest).assemble_torrents())
            except BaseException as exc:  # noqa
                import traceback
                oc = drive.Outcome(exc=exc, tb=traceback.format_exc())
    finally:
        if orig_index is not None:
            rebuild._index_contents = orig_index
    return oc


def listed_files(meta):
    """[(relative full path under dest, length)] of the non-padding files."""
    top, _ = rb.decode(meta["raw"])
    info = top.get(b"info")
    name = info.get(b"name").value.decode()
    out = []
    if rt.meta_version(info) == 1:
        for comps, length, is_pad in rt.v1_entries(info):
            if is_pad:
                continue
            out.append((name if comps is None else os.path.join(name, *[c.decode() for c in comps]), length))
    else:
        for comps, leaf in rt.v2_leaves(info.get(b"file tree")):
            if meta["tree"]["single"]:
                # without info.length a one-leaf tree keyed by the name is also a valid directory torrent
                alt = None if b"length" in info else os.path.join(name, name)
                out.append((name, leaf.get(b"length").value, alt))
            else:
                out.append((os.path.join(name, *[c.decode() for c in comps]), leaf.get(b"length").value))
    return out


def partial_slice_model(meta, world, pl, any_piece=False):
    """Known-finding defect model for v1 rebuilds (see known_findings.json):
    returns (wrong_files, all_explained).  A destination file that differs from the genuine payload is 'explained'
    when (a) its bytes are those of another search-directory file of the same base name and size and (b) it agrees
    with the genuine file on the slice of the file that lies in the first piece containing it - the only slice the
    matcher verified before copying the whole candidate and marking the file as done.
    any_piece: the slice may lie in ANY piece overlapping the file.  The matcher walks the pieces in order and accepts
    a candidate at the first piece that verifies; that is a later piece exactly when an EARLIER rebuild met the file
    while no candidate verified its earlier pieces (genuine copy still incomplete / overwritten at that time)."""
    if meta["version"] != 1:
        return [], False
    wrong, explained = [], True
    offset = 0
    for full, length, *_ in listed_files(meta):
        rel = os.path.relpath(full, meta["tree"]["name"])
        op = meta["root"] if meta["tree"]["single"] else os.path.join(meta["root"], rel)
        dp = os.path.join(world["dest"], full)
        start = offset
        offset += length
        if not (os.path.isfile(op) and os.path.isfile(dp)):
            continue
        with open(op, "rb") as fd:
            orig = fd.read()
        with open(dp, "rb") as fd:
            got = fd.read()
        if got == orig:
            continue
        first = min(length, pl - start % pl)
        is_copy = hashlib.sha256(got).hexdigest() in world["search_files"].get(os.path.basename(full), set())
        ok = is_copy and len(got) == length and got[:first] == orig[:first]
        agreeing = None
        if any_piece and is_copy and len(got) == length and not ok:
            cuts = [0, first] + list(range(first + pl, length, pl)) + [length]
            agreeing = [k for k in range(len(cuts) - 1) if cuts[k] < cuts[k + 1] and
                        got[cuts[k]:cuts[k + 1]] == orig[cuts[k]:cuts[k + 1]]]
            ok = bool(agreeing)
        wrong.append({"file": full, "first_slice_bytes": first, "explained": ok, "agreeing_piece_slices": agreeing})
        explained &= ok
    return wrong, bool(wrong) and explained


def _reach():
    rebuild, utils = drive.mod("rebuild"), drive.mod("utils")
    r = env.Reach()
    r.start({"Metadata.extract": env.Tolerant(rebuild).Metadata.extract, "Metadata._map_pieces": env.Tolerant(rebuild).Metadata._map_pieces,
             "Metadata._parse_tree": env.Tolerant(rebuild).Metadata._parse_tree, "Metadata._match_v1": env.Tolerant(rebuild).Metadata._match_v1,
             "Metadata._match_v2": env.Tolerant(rebuild).Metadata._match_v2, "PieceNode._find_matches": env.Tolerant(rebuild).PieceNode._find_matches,
             "PathNode.get_part": env.Tolerant(rebuild).PathNode.get_part, "rebuild._index_content": env.Tolerant(rebuild)._index_content,
             "utils.copypath": env.Tolerant(utils).copypath})
    return r


def _scenario_sig(case):
    return [[t["version"], t["tree"]["layout"], t["encoder"][0]] for t in case["torrents"]] + \
           [case["nsearch"], sorted({d["kind"] for d in case["decoys"]}), case["via"], case["meta_as_dir"],
            bool(case.get("search_as_file")),
            sorted({p["kind"] for p in case["prepop"]})]


def _decoy_first(world, captured):
    """Number of basenames for which a same-size decoy precedes every genuine copy in the filemap."""
    n = 0
    fm = captured.get("filemap", {})
    decoys = set(world["decoy_digests"].values())
    for name, locs in fm.items():
        paths = [os.path.abspath(p) for p, _ in locs]
        di = [i for i, p in enumerate(paths) if p in decoys]
        gi = [i for i, p in enumerate(paths) if p not in decoys]
        if di and gi and min(di) < min(gi):
            n += 1
    return n


def _placing_events(events, details, dest):
    """How many audit events put a file under dest: a copy, a hard link or a rename to a name there, or a creating /
    truncating open there (an implementation may copy with its own read/write loop, link, or stage and rename)."""
    n = 0
    for (ev, paths), dt in zip(events, details):
        if ev in ("shutil.copyfile", "os.link", "os.rename", "shutil.move") and paths and _under(paths[-1], dest):
            n += 1          # a copy, a hard link or a rename whose NEW name lies under dest
        elif ev == "open-w" and dt.get("flags", 0) & (os.O_CREAT | os.O_TRUNC) and paths and _under(paths[0], dest):
            n += 1
    return n


# ---------------------------------------------------------------------- C13
class C13:
    rule_extra = ('Later additions: metafile / search / destination directories spelled with trailing or doubled separators, dot and dot-dot segments or relative to the cwd; two-phase cases; search paths naming a single file; edited metafiles.')
    id = "C13"
    quick, thorough = 1200, 24000
    timeout = 180
    rule = ("case = batch of 1-3 torrents (v1/v2/hybrid; tool-made or reference-encoded; layouts incl. files ending "
            "exactly on piece boundaries, empty files, same basename in several payload directories, single file) "
            "whose files are scattered by basename over 1-3 search directories at depth 0-3 next to junk and decoys "
            "(same name: same size / other size, fresh random bytes), directory enumeration permuted; Assembler or "
            "CLI rebuild into an empty destination; oracle: every listed file exists under dest with its recorded "
            "length, the reference re-checker verifies dest at 100%, returned count <= listed files present; "
            "non-trivial when >= 2 files, a decoy, or a boundary-ending file; distinct by (per-torrent version / "
            "layout / encoder, #search dirs, decoy kinds, route, metafiles-as-directory)")
    required = ("dest_trees_verified", "batch_cases", "v1_torrents", "v2_torrents", "v3_torrents",
                "copy_events", "boundary_cases", "empty_file_cases", "two_phase_cases", "search_path_is_a_file_cases")
    assumptions = ("v1 metafiles with padding entries are outside the quantifier (not generated)",
                   "decoys are fresh random bytes: none of their pieces verifies")

    @staticmethod
    def gen(rng, tier, i):
        if i == 0:
            # pinned witness of the known finding 'rebuild-v1-candidate-accepted-on-partial-slice' (three same-named,
            # same-sized files, the last one entering its first piece with a single byte on which a wrong candidate
            # agrees): reproduced on every run so that the finding is re-confirmed, not merely remembered
            import json
            with open(os.path.join(os.path.dirname(os.path.abspath(__file__)), "witness_c13_partial.json")) as fd:
                return json.load(fd)
        return gen_scenario(rng, tier)

    @staticmethod
    def run(case, scratch):
        env.install_enum_order(case["enum"], case["seed"] % 1000)
        reach = _reach()
        world = build_world(case, scratch)
        if "error" in world:
            return {"inconclusive": world["error"]}
        captured = {}
        counters, viol = {}, []
        if case.get("two_phase"):
            # an earlier rebuild in this process saw one candidate while it was still incomplete (right name and
            # size, wrong bytes); the copy is completed in place before the judged rebuild
            rng2 = random.Random(case["seed"] + 1)
            cands = [c for c in world.get("copies", []) if c[1] > 0]
            if cands:
                victim, size = rng2.choice(cands)
                with open(victim, "rb") as fd:
                    good = fd.read()
                # every byte differs, so no piece of the incomplete copy verifies (a partly verifying copy could
                # legitimately be placed by the first run and, being full length, never be replaced - C14)
                bad = bytes((b % 255) + 1 for b in good)
                with open(victim, "wb") as fd:
                    fd.write(bad)
                run_rebuild(case, world, {})
                with open(victim, "wb") as fd:
                    fd.write(good)
                counters["two_phase_cases"] = 1
        env.AUDIT.start()
        oc = run_rebuild(case, world, captured)
        events = env.AUDIT.stop()
        if captured.get("paths_respelled"):
            counters["directories_respelled_cases"] = 1
        counters["copy_events"] = _placing_events(events, list(env.AUDIT.details), world["dest"])
        for e, _ in events:
            counters["audit:" + e] = counters.get("audit:" + e, 0) + 1
        pl = 2 ** case["pl_exp"]
        if not oc.ok:
            viol.append(oracles.V("rebuild-raised", exc=oc.excname(), tb=(oc.tb or "")[-1500:]))
        else:
            present = 0
            total_listed = 0
            for m in world["metas"]:
                counters[f"v{m['version']}_torrents"] = counters.get(f"v{m['version']}_torrents", 0) + 1
                missing = []
                for full, length, *alt in listed_files(m):
                    total_listed += 1
                    p = os.path.join(world["dest"], full)
                    if alt and alt[0] and os.path.isdir(p):
                        p = os.path.join(world["dest"], alt[0])
                    if os.path.isfile(p) and os.path.getsize(p) == length:
                        present += 1
                    else:
                        missing.append([full, length, os.path.getsize(p) if os.path.isfile(p) else
                                        ("dir" if os.path.isdir(p) else None)])
                if missing:
                    viol.append(oracles.V("listed-file-not-rebuilt", version=m["version"], layout=m["tree"]["layout"],
                                          missing=missing[:6], n_missing=len(missing),
                                          sizes=[f[1] for f in sorted(m["tree"]["files"])][:10], pl=pl))
                droot = os.path.join(world["dest"], m["tree"]["name"])
                ref = rt.recheck(m["raw"], droot)
                counters["dest_trees_verified"] = counters.get("dest_trees_verified", 0) + 1
                if ref["fraction"] is not None and ref["fraction"] != 100 and not missing:
                    wrong, explained = partial_slice_model(m, world, pl, any_piece=bool(counters.get("two_phase_cases")))
                    viol.append(oracles.V("dest-does-not-verify", version=m["version"], percent=float(ref["fraction"]),
                                          wrong_files=wrong, matches_partial_slice_model=explained,
                                          earlier_rebuild_without_genuine_copy=bool(counters.get("two_phase_cases"))))
            if isinstance(oc.ret, int) and oc.ret > present:
                viol.append(oracles.V("count-exceeds-files-present", returned=oc.ret, present=present,
                                      listed=total_listed))
        if _decoy_first(world, captured):
            counters["decoy_met_first"] = 1
        if len(case["torrents"]) > 1:
            counters["batch_cases"] = 1
        if case.get("search_as_file") and world.get("loose_file"):
            counters["search_path_is_a_file_cases"] = 1
        if world.get("edited_metafiles"):
            counters["edited_metafile_cases"] = 1
        if any(t["tree"]["layout"] == "utf8hash" for t in case["torrents"]):
            counters["utf8_valid_hash_cases"] = 1
        if world.get("prefix_decoys"):
            counters["prefix_decoy_cases"] = 1
        sizes = [f[1] for t in case["torrents"] for f in t["tree"]["files"]]
        if any(s and s % pl == 0 for s in sizes):
            counters["boundary_cases"] = 1
        if 0 in sizes:
            counters["empty_file_cases"] = 1
        nontrivial = len(sizes) >= 2 or bool(case["decoys"]) or any(s and s % pl == 0 for s in sizes)
        # the count check is a consequence of the same wrong placement only if every listed file is present
        return {"violations": viol, "counters": counters, "reach": reach.collect(), "nontrivial": nontrivial,
                "sig": _scenario_sig(case),
                "sample": {"torrents": [[t["version"], t["tree"]["layout"], [[f[0], f[1]] for f in t["tree"]["files"][:6]]]
                                        for t in case["torrents"]], "piece_length": pl, "search_dirs": case["nsearch"],
                           "decoys": len(case["decoys"]), "via": case["via"], "returned": oc.ret if oc.ok else oc.excname(),
                           "copy_events": counters["copy_events"], "violations": len(viol)}}

    @staticmethod
    def classify(case, v):
        d = v.get("detail", {})
        if v.get("kind") == "dest-does-not-verify" and d.get("version") == 1 and d.get("matches_partial_slice_model") is True:
            return "rebuild-v1-candidate-accepted-on-partial-slice"
        return None


# ---------------------------------------------------------------------- C14
def _under(path, root):
    root = os.path.realpath(root)
    path = os.path.realpath(path)
    return path == root or path.startswith(root + os.sep)


class C14:
    rule_extra = ('Later additions: respelled directories as in C13; between repeated rebuilds a verified candidate may be overwritten in place (same size, every byte different) and what was built from it deleted - it is a decoy from then on.')
    id = "C14"
    quick, thorough = 1200, 24000
    timeout = 180
    rule = ("case = C13 scenario plus a destination pre-populated with correct / wrong-same-size / shorter / "
            "unrelated files and 1-3 consecutive rebuilds into it; monitors: full before/after snapshots (names, "
            "sizes, SHA-256, modes) of search directories, metafiles and destination, and the audit-event log of "
            "every write-class operation; oracle: sources and metafiles unchanged and never targeted by a write "
            "event; destination files that had their full recorded length keep their bytes; every new or changed "
            "destination file is at a path the metafile assigns, has the recorded length and equals a search file of "
            "that basename; no decoy is placed; non-trivial when pre-populated, a decoy is present or the rebuild "
            "is repeated; distinct by (C13 signature, pre-population kinds, repeats)")
    required = ("snapshots_compared", "copy_events", "prepop_wrong", "prepop_shorter", "prepop_shorter-wrong", "prepop_correct",
                "repeat_runs", "placed_files_checked", "candidate_spoiled_between_rebuilds")
    assumptions = C13.assumptions

    @staticmethod
    def gen(rng, tier, i):
        kinds = rng.sample(["correct", "wrong", "shorter", "shorter-wrong", "unrelated"], rng.choice([0, 1, 1, 2, 3]))
        case = gen_scenario(rng, tier, prepop_kinds=kinds)
        case["repeats"] = rng.choice([1, 1, 2, 3])
        case["spoil_between"] = case["repeats"] > 1 and rng.random() < 0.4
        case["reuse_assembler"] = case["repeats"] > 1 and case["via"] == "lib" and rng.random() < 0.5
        return case

    @staticmethod
    def run(case, scratch):
        env.install_enum_order(case["enum"], case["seed"] % 1000)
        reach = _reach()
        world = build_world(case, scratch)
        if "error" in world:
            return {"inconclusive": world["error"]}
        counters, viol = {}, []
        for kind, _, _ in world["prepop"].values():
            counters["prepop_" + kind] = 1
        assigned = {}
        for m in world["metas"]:
            for full, length, *alt in listed_files(m):
                assigned[full] = length
                if alt and alt[0]:
                    assigned[alt[0]] = length
        src_roots = world["search"] + [os.path.dirname(world["metas"][0]["path"]), os.path.join(scratch, "orig")]
        if os.path.isdir(os.path.join(scratch, "loose")):
            src_roots.append(os.path.join(scratch, "loose"))
        decoy_first = 0
        returned = []
        for rep in range(case["repeats"]):
            if rep and case.get("spoil_between") and world.get("copies"):
                # between two rebuilds the USER overwrites a verified candidate in place (same path, same size, every
                # byte different) and removes what had been rebuilt from it: it is a decoy now and must not be placed
                rng3 = random.Random(case["seed"] + rep)
                cands = [c for c in world["copies"] if c[1] > 0]
                if cands:
                    victim, size = rng3.choice(cands)
                    with open(victim, "rb") as fd:
                        good = fd.read()
                    bad = bytes((b % 255) + 1 for b in good)
                    with open(victim, "wb") as fd:
                        fd.write(bad)
                    world["decoy_digests"][hashlib.sha256(bad).hexdigest()] = victim
                    world["search_files"].setdefault(os.path.basename(victim), set()).add(hashlib.sha256(bad).hexdigest())
                    gd = hashlib.sha256(good).hexdigest()
                    for full, (ln, dig) in world["placed_expect"].items():
                        dp = os.path.join(world["dest"], full)
                        if dig == gd and os.path.basename(full) == os.path.basename(victim) and os.path.isfile(dp):
                            os.remove(dp)
                    counters["candidate_spoiled_between_rebuilds"] = 1
            before_src = {r: env.snapshot(r) for r in src_roots}
            before_dst = env.snapshot(world["dest"]) if os.path.exists(world["dest"]) else {}
            captured = {}
            env.AUDIT.start()
            oc = run_rebuild(case, world, captured)
            events = env.AUDIT.stop()
            details = list(env.AUDIT.details)
            if captured.get("paths_respelled"):
                counters["directories_respelled_cases"] = 1
            if captured.get("assembler_reused"):
                counters["assembler_object_reused_runs"] = counters.get("assembler_object_reused_runs", 0) + 1
            returned.append(oc.ret if oc.ok else oc.excname())
            decoy_first += _decoy_first(world, captured)
            counters["copy_events"] = counters.get("copy_events", 0) + _placing_events(events, details, world["dest"])
            for e, _ in events:
                counters["audit:" + e] = counters.get("audit:" + e, 0) + 1
            if rep:
                counters["repeat_runs"] = counters.get("repeat_runs", 0) + 1
            after_dst = env.snapshot(world["dest"]) if os.path.exists(world["dest"]) else {}
            for r in src_roots:
                d = env.snapdiff(before_src[r], env.snapshot(r))
                counters["snapshots_compared"] = counters.get("snapshots_compared", 0) + 1
                if d["added"] or d["removed"] or d["changed"]:
                    viol.append(oracles.V("source-or-metafile-modified", root=os.path.relpath(r, scratch), diff=d, run=rep))
            for (ev, paths), dt in zip(events, details):
                if ev == "open-w" and not dt.get("flags", 0) & (os.O_CREAT | os.O_TRUNC):
                    continue        # opening an existing file writable alters nothing by itself (snapshots judge content)
                # the last path of copy events is the destination; every path of other events is a target
                targets = paths[-1:] if ev in ("shutil.copyfile", "shutil.copymode", "shutil.copystat", "os.link", "os.symlink") else paths
                for t in targets:
                    if any(_under(t, r) for r in src_roots):
                        viol.append(oracles.V("write-event-on-source", event=ev, path=os.path.relpath(t, scratch), run=rep))
                    elif not _under(t, world["dest"]) and t not in ("/dev/null", "/dev/tty"):
                        viol.append(oracles.V("write-event-outside-dest", event=ev, path=t, run=rep))
            d = env.snapdiff(before_dst, after_dst)
            for rel in d["removed"]:
                viol.append(oracles.V("dest-entry-removed", path=rel, run=rep))
            for rel in d["changed"]:
                kind, size, dig, _mode = before_dst[rel]
                if kind == "file" and rel in assigned and size >= assigned[rel]:
                    viol.append(oracles.V("full-length-dest-file-altered", path=rel, run=rep,
                                          prepop=world["prepop"].get(rel)))
                elif kind == "file" and rel not in assigned:
                    viol.append(oracles.V("unrelated-dest-file-altered", path=rel, run=rep))
            for rel in d["added"] + d["changed"]:
                kind, size, dig, _mode = after_dst[rel]
                if kind != "file":
                    continue
                if rel in d["changed"] and before_dst[rel][0] == "file" and before_dst[rel][2] == dig:
                    continue        # only the mode changed
                counters["placed_files_checked"] = counters.get("placed_files_checked", 0) + 1
                if rel not in assigned:
                    viol.append(oracles.V("file-placed-at-unassigned-path", path=rel, run=rep))
                    continue
                if size != assigned[rel]:
                    viol.append(oracles.V("placed-file-wrong-length", path=rel, size=size, recorded=assigned[rel], run=rep))
                if dig not in world["search_files"].get(os.path.basename(rel), set()):
                    viol.append(oracles.V("placed-file-is-no-copy-of-a-search-file", path=rel, run=rep))
                wrong_same_size = size and rel in world["placed_expect"] and dig != world["placed_expect"][rel][1] and \
                    size == world["placed_expect"][rel][0]
                genuine_here = rel in world["placed_expect"] and dig == world["placed_expect"][rel][1]
                # (tiny files: a decoy made for ANOTHER file may consist of the very bytes that belong here)
                if (dig in world["decoy_digests"] and not genuine_here) or wrong_same_size:
                    # the statement forbids placing a file NONE of whose bytes verify; a candidate that agrees with
                    # the genuine file on the slice lying in the first piece containing it did verify there
                    partly = False
                    for m in world["metas"]:
                        for w in partial_slice_model(m, world, 2 ** case["pl_exp"], any_piece=True)[0]:
                            if w["file"] == rel and w["explained"]:
                                partly = True
                    if partly:
                        counters["placed_after_partial_verification"] = counters.get("placed_after_partial_verification", 0) + 1
                    elif dig in world["decoy_digests"]:
                        viol.append(oracles.V("decoy-placed", path=rel, run=rep))
                    else:
                        viol.append(oracles.V("non-verifying-same-size-file-placed", path=rel, run=rep))
        if decoy_first:
            counters["decoy_met_first"] = 1
        nontrivial = bool(world["prepop"]) or bool(case["decoys"]) or case["repeats"] > 1
        return {"violations": viol, "counters": counters, "reach": reach.collect(), "nontrivial": nontrivial,
                "evaluations": case["repeats"],
                "sig": _scenario_sig(case) + [case["repeats"]],
                "sample": {"torrents": [[t["version"], t["tree"]["layout"]] for t in case["torrents"]],
                           "prepopulated": {k: v[0] for k, v in world["prepop"].items()}, "repeats": case["repeats"],
                           "decoys": len(case["decoys"]), "returned": returned,
                           "copy_events": counters.get("copy_events", 0),
                           "placed_files_checked": counters.get("placed_files_checked", 0), "violations": len(viol)}}

    @staticmethod
    def classify(case, v):
        return None


# ---------------------------------------------------------------------- C19
HOSTILE = ["..", ".", "", "../..", "a/../../b", "../../../../../../../../../../..", "/abs", "x/../..", "..\\..",
           "a/../../../b", "./..", "..//..", "/", "//abs2", "//abs3/in", "///abs4", "sub/../../esc",
           # climb out and come back down into a sibling whose name merely STARTS like the destination ("dest")
           "../dest2", "../../dest2", "../../dest-old/in", "../dest.bak", "../../../lvl2/dest2", "x/../../dest_"]


class C19:
    rule_extra = ('Later additions: names with exactly two leading slashes arrive verbatim (//<sandbox>/x), sibling directories whose names start like the destination, metafile given as a folder.')
    id = "C19"
    quick, thorough = 1200, 24000
    timeout = 120
    rule = ("case = syntactically valid metafile from the reference encoder (v1 multi/single, v2, hybrid) whose name "
            "and/or directory components are hostile ('..', '.', '', absolute, embedded separators, deep '..' "
            "chains; absolute components point inside the sandbox), with matching candidate files (right basename, "
            "size, hash) in the search directory so the copy is attempted; the rebuild runs under an audit hook that "
            "RECORDS AND BLOCKS every write-class event whose resolved target lies outside the destination; oracle: "
            "no such event and the snapshot of everything outside the destination is unchanged (raising or skipping "
            "are acceptable); non-trivial when the naive join would escape and a candidate exists; distinct by "
            "(version, hostile alphabet class, position, route)")
    required = ("escaping_cases", "candidate_matched", "rebuild_calls", "benign_copy_events",
                "escaping_cases_metafile_directory")
    assumptions = ("symlinks are out of scope", "the veto makes blocked operations fail with PermissionError, which the "
                   "code under test may propagate")

    @staticmethod
    def gen(rng, tier, i):
        version = rng.choice([1, 1, 2, 3])
        pos = rng.choice(["name", "dir", "dir", "both", "benign"])
        h1, h2 = rng.choice(HOSTILE), rng.choice(HOSTILE)
        nfiles = rng.randint(1, 3)
        files = []
        for k in range(nfiles):
            comps = [f"leaf{k}"]
            if pos in ("dir", "both"):
                depth = rng.choice([1, 1, 2, 3])
                pre = [rng.choice([h2, "d", h2, rng.choice(HOSTILE)]) for _ in range(depth)]
                if all(c == "d" for c in pre):
                    pre[0] = h2
                if rng.random() < 0.12:
                    # components that add no level ('.', '' from a doubled separator) in front of one climb more than
                    # there are real directories: a containment test that COUNTS components is fooled by them
                    k = rng.choice([1, 1, 2, 3])
                    pre = [rng.choice([".", ".", "", "x//y"[:rng.choice([1, 4])]]) for _ in range(k)] + [".."] * (k + rng.choice([1, 1, 2]))
                    if rng.random() < 0.3:
                        pre.append("in")
                comps = pre + comps
            elif rng.random() < 0.5:
                comps = ["d"] + comps
            files.append([comps, rng.choice([5, 100, 16384, 20000, 0, 0, 32768]), rng.randrange(1 << 30)])
        name = h1 if pos in ("name", "both") else rng.choice(["T", "pay load"])
        if rng.random() < 0.06:
            # two entries that resolve to ONE destination path (a/../data.bin and data.bin) with different lengths and
            # a candidate for each: nothing leaves the destination by name, but whatever is placed first is written
            # over by the second - an implementation that places by hard link would write into the search directory
            pos, name = "alias-pair", rng.choice(["T", "pay load"])
            sizes = rng.sample([3000, 7000, 16384, 20000, 100], 2)
            files = [[["a", "..", "data.bin"], sizes[0], rng.randrange(1 << 30)], [["data.bin"], sizes[1], rng.randrange(1 << 30)]]
            if rng.random() < 0.5:
                files.reverse()
        return {"version": version, "pos": pos, "name": name, "files": files, "via": rng.choice(["lib", "cli"]),
                "single": False, "seed": rng.randrange(1 << 30), "meta_as_dir": rng.random() < 0.35,
                "retry_same_object": rng.random() < 0.35}

    @staticmethod
    def run(case, scratch):
        reach = _reach()
        sandbox = os.path.join(scratch, "sb")
        dest = os.path.join(sandbox, "lvl1", "lvl2", "dest")
        search = os.path.join(sandbox, "search")
        os.makedirs(dest)
        os.makedirs(search)
        os.makedirs(os.path.join(sandbox, "abs"))

        def fixabs(c):
            # absolute components are re-rooted inside the sandbox so that even an unblocked write stays there
            if c.startswith("//") and not c.startswith("///"):
                # exactly two leading slashes survive normpath on POSIX and still name the root directory
                return "/" + sandbox + "/" + c.lstrip("/")
            if c.startswith("//"):
                return sandbox + "/" + c.lstrip("/")
            if c.startswith("/") and c != "/":
                return sandbox + c
            return c
        name = fixabs(case["name"])
        files = []
        for comps, size, cs in case["files"]:
            comps = [fixabs(c) for c in comps]
            data = content(cs, size)
            files.append((tuple(comps), data))
            cand = os.path.join(search, comps[-1])
            if case["pos"] == "alias-pair":
                cand = os.path.join(search, f"s{len(files)}", comps[-1])       # same base name twice: one directory each
                os.makedirs(os.path.dirname(cand))
            with open(cand, "wb") as fd:
                fd.write(data)
        # v2 trees cannot hold two identical keys / '' as a directory key ambiguity: build may merge; fine.
        try:
            raw = rt.build(name, files=files, pl=16384, version=case["version"])
        except Exception as e:
            return {"inconclusive": "reference encoder rejected the hostile shape: " + repr(e)}
        os.makedirs(os.path.join(sandbox, "metas"))
        mpath = os.path.join(sandbox, "metas", "m.torrent")
        with open(mpath, "wb") as fd:
            fd.write(raw)
        marg = os.path.dirname(mpath) if case.get("meta_as_dir") else mpath    # -m accepts a folder of metafiles
        # would the naive join escape?
        escapes = False
        droot = os.path.realpath(dest)
        for comps, _ in files:
            tgt = os.path.realpath(os.path.join(dest, name, *comps))
            if not (tgt == droot or tgt.startswith(droot + os.sep)):
                escapes = True
        before = env.snapshot(sandbox)
        before = {k: v for k, v in before.items() if not (k + "/").startswith("lvl1/lvl2/dest/") and k != "lvl1/lvl2/dest"}
        rebuild = drive.mod("rebuild")
        captured = {"matched": 0}
        orig_copy = getattr(rebuild, "copypath", None) or getattr(drive.mod("utils"), "copypath", None)

        def veto(ev, paths, extra=None):
            if ev == "open-w" and not (extra or {}).get("flags", 0) & (os.O_CREAT | os.O_TRUNC):
                return False     # opening an existing file writable neither creates nor overwrites; the snapshot judges content
            targets = paths[-1:] if ev in ("shutil.copyfile", "shutil.copymode", "shutil.copystat", "os.link", "os.symlink") else paths
            for t in targets:
                if t in ("/dev/null", "/dev/tty"):
                    continue
                rt_ = os.path.realpath(t)
                if not (rt_ == droot or rt_.startswith(droot + os.sep)):
                    return True
            return False

        def spy_copy(source, target):
            captured["matched"] += 1
            return orig_copy(source, target)
        if orig_copy is not None:
            rebuild.copypath = spy_copy
        env.AUDIT.start(veto=veto)
        try:
            if case["via"] == "cli":
                oc = drive.cli_execute(["rebuild", "-m", marg, "-c", search, "-d", dest])
            else:
                try:
                    asm = rebuild.Assembler([marg], [search], dest)
                    try:
                        oc = drive.Outcome(ret=asm.assemble_torrents())
                    except BaseException as exc:  # noqa
                        oc = drive.Outcome(exc=exc, tb="")
                    if case.get("retry_same_object"):
                        # a caller that catches the refusal and simply tries again with the object it has
                        counters_retry = True
                        try:
                            oc = drive.Outcome(ret=asm.assemble_torrents())
                        except BaseException as exc:  # noqa
                            oc = drive.Outcome(exc=exc, tb="")
                except BaseException as exc:  # noqa
                    oc = drive.Outcome(exc=exc, tb="")
        finally:
            events = env.AUDIT.stop()
            vetoed = list(env.AUDIT.vetoed)
            if orig_copy is not None:
                rebuild.copypath = orig_copy
        after = env.snapshot(sandbox)
        after = {k: v for k, v in after.items() if not (k + "/").startswith("lvl1/lvl2/dest/") and k != "lvl1/lvl2/dest"}
        counters, viol = {"rebuild_calls": 1}, []
        for e, _ in events:
            counters["audit:" + e] = counters.get("audit:" + e, 0) + 1
        counters["audit_events_vetoed"] = len(vetoed)
        if vetoed:
            viol.append(oracles.V("write-outside-destination-attempted", events=[[e, [p.replace(scratch, "<S>") for p in ps]]
                                                                                  for e, ps in vetoed[:5]],
                                  name=case["name"], files=[f[0] for f in case["files"]], version=case["version"]))
        d = env.snapdiff(before, after)
        if d["added"] or d["removed"] or d["changed"]:
            viol.append(oracles.V("outside-of-destination-changed", diff=d))
        if escapes:
            counters["escaping_cases"] = 1
            if case.get("meta_as_dir"):
                counters["escaping_cases_metafile_directory"] = 1
        placed = _placing_events(events, list(env.AUDIT.details), dest)
        if captured["matched"] or placed or any(e == "shutil.copyfile" for e, _ in events):
            counters["candidate_matched"] = 1
        if not escapes and placed:
            counters["benign_copy_events"] = 1

        def cls(c):
            return ("dotdot" if c == ".." else "dot" if c == "." else "empty" if c == "" else
                    "abs" if c.startswith("/") else "embedded" if "/" in c or "\\" in c else "plain")
        alpha = sorted({cls(case["name"])} | {cls(c) for f in case["files"] for c in f[0][:-1]})
        return {"violations": viol, "counters": counters, "reach": reach.collect(),
                "nontrivial": escapes,
                "sig": [case["version"], alpha, case["pos"], case["via"], bool(captured["matched"]), bool(case.get("meta_as_dir"))],
                "sample": {"version": case["version"], "name": case["name"], "files": [f[0] for f in case["files"]],
                           "naive_join_escapes": escapes, "copy_attempts": captured["matched"],
                           "outcome": oc.ret if oc.ok else oc.excname(), "vetoed_events": len(vetoed),
                           "write_events_seen": len(events)}}

    @staticmethod
    def classify(case, v):
        return None
