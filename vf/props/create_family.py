"""C01, C02, C03, C10, C15: creation of metafiles judged against reference hashing."""
import os

from .. import drive, gen, oracles
from ..harness import materialise
from ..monitors import env


def _pl_form(rng, exp):
    c = rng.random()
    if c < 0.45:
        return 2 ** exp
    if c < 0.65:
        return exp
    if c < 0.8:
        return str(2 ** exp)
    return str(exp)


def _reach_funcs(names):
    hasher, torrent, utils = drive.mod("hasher"), drive.mod("torrent"), drive.mod("utils")
    table = {
        "Hasher._handle_partial": env.Tolerant(hasher).Hasher._handle_partial,
        "Hasher.next_file": env.Tolerant(hasher).Hasher.next_file,
        "Hasher.__next__": env.Tolerant(hasher).Hasher.__next__,
        "TorrentFile.assemble": env.Tolerant(torrent).TorrentFile.assemble,
        "utils._filelist_total": env.Tolerant(utils)._filelist_total,
        "merkle_root": env.Tolerant(hasher).merkle_root,
        "HasherV2.process_file": env.Tolerant(hasher).HasherV2.process_file,
        "HasherV2._calculate_root": env.Tolerant(hasher).HasherV2._calculate_root,
        "HasherHybrid.process_file": env.Tolerant(hasher).HasherHybrid.process_file,
        "HasherHybrid._pad_remaining": env.Tolerant(hasher).HasherHybrid._pad_remaining,
        "HasherHybrid._calculate_root": env.Tolerant(hasher).HasherHybrid._calculate_root,
        "FileHasher.__next__": env.Tolerant(hasher).FileHasher.__next__,
        "FileHasher._pad_remaining": env.Tolerant(hasher).FileHasher._pad_remaining,
        "FileHasher._calculate_root": env.Tolerant(hasher).FileHasher._calculate_root,
        "TorrentFileV2._traverse": env.Tolerant(torrent).TorrentFileV2._traverse,
        "TorrentFileHybrid._traverse": env.Tolerant(torrent).TorrentFileHybrid._traverse,
        "TorrentAssembler._traverse": env.Tolerant(torrent).TorrentAssembler._traverse,
        "TorrentAssembler.assemble": env.Tolerant(torrent).TorrentAssembler.assemble,
        "TorrentFileHybrid.assemble": env.Tolerant(torrent).TorrentFileHybrid.assemble,
        "utils.next_power_2": env.Tolerant(utils).next_power_2,
    }
    return {k: table[k] for k in names}


def gen_prelude(rng):
    """Unjudged warm-up creations executed earlier in the same process (other piece lengths, multi-piece files
    with non-power-of-two piece counts): process-lifetime state must not leak into the judged creation."""
    if rng.random() < 0.5:
        return []
    ops = []
    for _ in range(rng.choice([1, 1, 2])):
        e = rng.choice([14, 15, 16, 17, 18])
        k = rng.choice([3, 5, 6, 7])
        ops.append({"route": rng.choice(["TorrentFileV2", "TorrentFileHybrid", "Assembler2", "Assembler3", "TorrentFile"]),
                    "pl_exp": e, "size": k * 2 ** e - rng.choice([0, 1, 16384, 777]), "cseed": rng.randrange(1 << 30)})
    return ops


def run_prelude(case, scratch):
    from ..harness import materialise_single
    for k, op in enumerate(case.get("prelude") or []):
        path = os.path.join(scratch, "pre", str(k), "w.bin")
        materialise_single(path, op["size"], op["cseed"])
        drive.create(op["route"], path, os.path.join(scratch, "pre", str(k), "w.torrent"),
                     piece_length=2 ** op["pl_exp"], progress=0)


def spelled(case, root):
    """The content path as the caller types it (same directory, another spelling)."""
    sp = case.get("spell")
    isdir = os.path.isdir(root)
    parent, base = os.path.split(root)
    if sp == "trailing-slash" and isdir:
        return root + "/"
    if sp == "dot-segment":
        return os.path.join(parent, ".", base)
    if sp == "double-sep":
        return parent + "//" + base
    if sp == "relative":
        os.chdir(parent)
        return base if not base.startswith("-") else "./" + base
    return root


def _setup(case, scratch, reach_names):
    env.install_enum_order(case.get("enum", "shuffle"), case.get("enum_seed", 0))
    run_prelude(case, scratch)
    tree = case["tree"]
    base = os.path.join(scratch, "in")
    root = os.path.join(base, tree["name"])
    if tree["single"]:
        materialise(base, [[tree["name"], tree["files"][0][1], tree["files"][0][2]]])
    else:
        materialise(root, tree["files"], tree["dirs"], tree.get("links", ()))
    out = os.path.join(scratch, "out")
    os.makedirs(out, exist_ok=True)
    if case.get("remake") and not tree["single"]:
        # the same path was already turned into a torrent earlier in this process, then the tree changed on disk
        route = case["route"] if case["route"] in drive.ROUTE_VERSION else "TorrentFile"
        drive.create(route, root, os.path.join(out, "earlier.torrent"), piece_length=case.get("pl"), progress=0,
                     align=case.get("remake_align", False))
        import random
        rng = random.Random(case["remake"])
        files = sorted(f[0] for f in tree["files"])
        from ..harness import content
        for _ in range(rng.choice([1, 1, 2])):
            kind = rng.choice(["add-nested", "add-nested", "add-top", "delete", "grow", "shrink", "rewrite-keep-mtime",
                               "rewrite-keep-mtime"])
            victim = os.path.join(root, rng.choice(files))
            if kind == "add-nested":
                sub = os.path.dirname(rng.choice(files)) or rng.choice(["newdir", "newdir/deep"])
                p = os.path.join(root, sub, "zz-added-" + str(rng.randrange(100)))
                os.makedirs(os.path.dirname(p), exist_ok=True)
                with open(p, "wb") as fd:
                    fd.write(content(rng.randrange(1 << 20), rng.choice([1, 77, 16385, 40000])))
            elif kind == "add-top":
                with open(os.path.join(root, "0-added-" + str(rng.randrange(100))), "wb") as fd:
                    fd.write(content(rng.randrange(1 << 20), rng.choice([0, 5, 20000])))
            elif kind == "delete" and len(files) > 1 and os.path.exists(victim):
                os.remove(victim)
                files.remove(os.path.relpath(victim, root))
            elif kind == "grow" and os.path.exists(victim):
                with open(victim, "ab") as fd:
                    fd.write(content(rng.randrange(1 << 20), rng.choice([1, 16384, 30001])))
            elif kind == "rewrite-keep-mtime" and os.path.exists(victim) and os.path.getsize(victim):
                # same name, same size, same timestamps, other bytes (cp -p / rsync -t / archive extraction)
                st = os.stat(victim)
                with open(victim, "r+b") as fd:
                    fd.write(content(rng.randrange(1 << 20), st.st_size))
                os.utime(victim, ns=(st.st_atime_ns, st.st_mtime_ns))
            elif kind == "shrink" and os.path.exists(victim):
                with open(victim, "r+b") as fd:
                    fd.truncate(os.path.getsize(victim) // 2)
    reach = env.Reach()
    reach.start(_reach_funcs(reach_names))
    return root, out, reach


def _gen_common(rng, tier, routes, **treekw):
    exp = gen.pick_pl_exp(rng, tier)
    pl = 2 ** exp
    tree = gen.gen_tree(rng, pl, tier, **treekw)
    auto = rng.random() < 0.12
    c = rng.random()
    single_ok = treekw.get("allow_single", True)
    if c < 0.012:
        # the largest piece lengths the tool accepts (32 MiB, given as exponent or as bytes) with a payload of more
        # than one such piece
        exp = 25
        pl = 2 ** exp
        big = ["img.bin", pl + rng.choice([3000, 16384 * 3 + 1, 2 ** 20 + 7, 1]), rng.randrange(1 << 30)]
        tree = {"name": "giant", "single": False, "dirs": [], "layout": "giant-pieces", "links": [],
                "files": [big, ["small.txt", rng.choice([0, 1, 40000]), rng.randrange(1 << 30)]]}
        if single_ok and rng.random() < 0.4:
            tree = {"name": "img.bin", "single": True, "dirs": [], "layout": "giant-pieces", "files": [big]}
        auto = False
    elif c < 0.018 and not treekw.get("layout"):
        # 8 / 16 MiB pieces whose boundary-crossing piece still lacks many MiB when a file ends, followed by a file of
        # several MiB (scratch buffers, chunked reads)
        exp = rng.choice([23, 23, 24])
        pl = 2 ** exp
        mib = 1 << 20
        tree = {"name": "bigstraddle", "single": False, "dirs": [], "layout": "big-straddle", "links": [],
                "files": [["a.bin", rng.choice([1, 2, 3]) * mib + rng.choice([0, 5, 4097]), rng.randrange(1 << 30)],
                          ["b.bin", rng.choice([5, 7, 9]) * mib + rng.choice([0, 1, 12345]), rng.randrange(1 << 30)],
                          ["c.bin", rng.choice([1, 6]) * mib + 7, rng.randrange(1 << 30)]]}
        auto = False
    elif c < 0.024:
        # payloads whose TOTAL crosses the first automatic piece-length threshold (16 384 000 bytes) while every single
        # file stays far below it; piece length left to the tool
        n = rng.randint(40, 60)
        tree = {"name": "album", "single": False, "dirs": [], "layout": "auto-threshold", "links": [],
                "files": [[f"cd{k % 3}/track{k:02d}.bin", rng.randint(330000, 480000), rng.randrange(1 << 30)] for k in range(n)]}
        auto = True
    elif c < 0.034 and not treekw.get("layout"):
        # well over a thousand small files and the piece length left to the tool (with align the padded stream is
        # many times larger than the payload)
        tree = gen.gen_tree(rng, pl, tier, layout="thousands", **{k: v for k, v in treekw.items() if k != "layout"})
        auto = True
    elif c < 0.07:
        # preallocated / sparse files and disk images with an unused tail: zero bytes are payload like any other
        for f in tree["files"]:
            if f[1] and rng.random() < 0.6:
                f[2] = rng.choice(["zero", "ztail:%d" % rng.randrange(1 << 30)])
        tree["layout"] += "+zeros"
    return {
        "tree": tree, "pl_exp": exp, "pl": None if auto else _pl_form(rng, exp),
        "route": rng.choice(routes), "progress": rng.choice([0, 1, 2]),
        "enum": rng.choice(["sorted", "shuffle", "reverse"]), "enum_seed": rng.randrange(1000),
        "prelude": gen_prelude(rng), "remake": rng.randrange(1, 1 << 30) if rng.random() < 0.2 else None,
        "swallowed": rng.choice([None, None, None, "announce", "url_list", "httpseeds"]),
        "spell": rng.choice([None, None, None, "trailing-slash", "trailing-slash", "dot-segment", "relative", "double-sep"]),
        # library routes only: the creator object is used a second time (assemble() again before writing / write() twice)
        "reuse": rng.choice([None] * 8 + ["assemble-again", "write-again"]),
    }


def _with_alias(rng, case, p=0.05):
    """Some directory payloads hold a directory symbolic link that is a second name for one of their directories
    (content/latest -> season1; no cycle).  Judged under both readings of such a link, see oracles.both_link_readings."""
    if rng.random() < p and (gen.add_file_alias if rng.random() < 0.35 else gen.add_dir_alias)(rng, case["tree"]):
        case["remake"] = None
    return case


def _alias_refused(case, counters):
    """A creator that refuses a payload holding a symbolic link writes no metafile that could be wrong."""
    lay = case["tree"]["layout"]
    if "+dir-alias" in lay or "+file-alias" in lay:
        counters["payload_with_link_refused"] = 1
        counters["cases_with_directory_alias_link" if "+dir-alias" in lay else "cases_with_file_alias_link"] = 1
        return True
    return False


def _judge(check, case, *args):
    if "+file-alias" in case["tree"]["layout"]:
        args[-1]["cases_with_file_alias_link"] = 1
        return oracles.both_link_readings(check, *args)
    if "+dir-alias" in case["tree"]["layout"]:
        args[-1]["cases_with_directory_alias_link"] = 1
        return oracles.both_link_readings(check, *args)
    return check(*args)


def _recorded_pl(raw):
    try:
        _, info, _ = oracles.decode_meta(raw)
        return info.get(b"piece length").value
    except Exception:
        return None


# ---------------------------------------------------------------------- C01
class C01:
    id = "C01"
    quick, thorough = 1200, 24000
    timeout = 120
    rule = ("case = generated tree (layout x boundary-biased sizes) x piece length form x route (TorrentFile / "
            "CLI create) x progress mode x directory enumeration order; non-trivial when a size is not a multiple "
            "of 16 KiB, a piece straddles >= 2 files, or an empty file is present; distinct by (layout, size "
            "classes, #pieces straddling 2 / >=3 files (capped), trailing-empty, pl exponent, route, progress)")
    required = ("pieces_compared", "cases_straddling", "cases_with_empty", "cases_cli", "cases_lib",
                "cases_recreated_after_mutation_in_process")
    assumptions = ("reference BEP 3 hashing (ref/hashing.py) is correct",
                   "payload trees are those generated (<= 41 files, depth <= 4; no symbolic links except, in 5 % of the "
                   "directory cases, a link that is a second name for a directory or a regular file of the payload - judged under both "
                   "readings: followed like the creators do, or not part of the payload)")

    @staticmethod
    def gen(rng, tier, i):
        return _with_alias(rng, _gen_common(rng, tier, ["TorrentFile", "TorrentFile", "cli1"]))

    @staticmethod
    def run(case, scratch):
        root, out, reach = _setup(case, scratch, ["Hasher._handle_partial", "Hasher.next_file", "Hasher.__next__",
                                                  "TorrentFile.assemble", "utils._filelist_total"])
        counters = {}
        oc = drive.create(case["route"], spelled(case, root), os.path.join(out, "m.torrent"), piece_length=case["pl"],
                          progress=case["progress"], swallowed=case.get("swallowed"), reuse=case.get("reuse"))
        if case.get("swallowed"):
            counters["cases_path_given_via_list_option"] = 1
        viol = []
        pl = 2 ** case["pl_exp"]
        if not oc.ok and _alias_refused(case, counters):
            pass
        elif not oc.ok:
            viol.append(oracles.V("create-raised", exc=oc.excname(), tb=oc.tb[-1500:]))
        else:
            viol += _judge(oracles.check_v1, case, oc.raw, root, counters)
            pl = _recorded_pl(oc.raw) or 2 ** case["pl_exp"]
            if case["pl"] is not None and pl != 2 ** case["pl_exp"]:
                viol.append(oracles.V("recorded-piece-length-differs", given=case["pl"], recorded=pl))
        sizes = [f[1] for f in sorted(case["tree"]["files"])]
        two, three = oracles.straddle_stats(sizes, pl)
        has_empty = any(s == 0 for s in sizes)
        counters["cases_straddling"] = int(two > 0)
        counters["cases_straddling3"] = int(three > 0)
        counters["cases_with_empty"] = int(has_empty)
        counters["cases_cli" if case["route"].startswith("cli") else "cases_lib"] = 1
        if case.get("remake") and not case["tree"]["single"]:
            counters["cases_recreated_after_mutation_in_process"] = 1
        nontrivial = any(s % 16384 for s in sizes) or two > 0 or has_empty
        sig = [gen.tree_sig(case["tree"], pl), min(two, 3), min(three, 2), sizes[-1] == 0, case["pl_exp"],
               case["route"], case["progress"], case["pl"] is None]
        return {"violations": viol, "sig": sig, "nontrivial": nontrivial, "counters": counters,
                "reach": reach.collect(),
                "sample": {"files": [[f[0], f[1]] for f in case["tree"]["files"][:10]], "piece_length": pl,
                           "pl_given": case["pl"], "route": case["route"], "progress": case["progress"],
                           "pieces_compared": counters.get("pieces_compared"),
                           "pieces_straddling_2plus_files": two, "violations": len(viol)}}

    @staticmethod
    def classify(case, v):
        return None


# ---------------------------------------------------------------------- C02
V2_ROUTES = ["TorrentFileV2", "Assembler2", "TorrentFileHybrid", "Assembler3", "cli2", "cli3"]


def _v2_file_class(size, pl):
    if size == 0:
        return "empty"
    nb = -(-size // 16384)
    npc = -(-size // pl)
    bc = "1" if nb == 1 else ("pow2" if nb & (nb - 1) == 0 else "npow2")
    pc = "1" if npc == 1 else ("pow2" if npc & (npc - 1) == 0 else "npow2")
    return f"b{bc}/p{pc}/{'short' if size % 16384 else 'full'}/{'=P' if size == pl else ''}"


class C02:
    id = "C02"
    quick, thorough = 1200, 24000
    timeout = 120
    rule = ("case = generated tree x piece length x creator (TorrentFileV2, TorrentAssembler v2/hybrid, "
            "TorrentFileHybrid, CLI --meta-version 2|3) x progress; oracle = two independent BEP 52 formulations; "
            "non-trivial when some file exercises a padding rule (short last block, short last piece, "
            "non-power-of-two block/piece count) or is empty or exactly one piece; distinct by (creator, set of "
            "per-file (block-count class, piece-count class, short-last-block), pl exponent)")
    required = ("roots_compared", "layers_compared", "rule_short_last_block", "rule_short_last_piece",
                "rule_piece_count_not_pow2", "rule_small_file_pow2_pad", "empty_leaves", "cases_with_directory_alias_link")
    assumptions = ("ref/hashing.py formulations A and B both implement BEP 52 (they must agree on every file)",)

    @staticmethod
    def gen(rng, tier, i):
        return _with_alias(rng, _gen_common(rng, tier, V2_ROUTES))

    @staticmethod
    def run(case, scratch):
        names = ["merkle_root", "utils.next_power_2"]
        r = case["route"]
        if r == "TorrentFileV2":
            names += ["HasherV2.process_file", "HasherV2._calculate_root", "TorrentFileV2._traverse"]
        elif r == "TorrentFileHybrid":
            names += ["HasherHybrid.process_file", "HasherHybrid._pad_remaining", "HasherHybrid._calculate_root",
                      "TorrentFileHybrid._traverse"]
        else:
            names += ["FileHasher.__next__", "FileHasher._pad_remaining", "FileHasher._calculate_root",
                      "TorrentAssembler._traverse"]
        root, out, reach = _setup(case, scratch, names)
        counters = {}
        oc = drive.create(r, spelled(case, root), os.path.join(out, "m.torrent"), piece_length=case["pl"],
                          progress=case["progress"], reuse=case.get("reuse"))
        viol = []
        pl = 2 ** case["pl_exp"]
        if not oc.ok and _alias_refused(case, counters):
            pass
        elif not oc.ok:
            viol.append(oracles.V("create-raised", exc=oc.excname(), tb=oc.tb[-1500:]))
        else:
            viol += _judge(oracles.check_v2, case, oc.raw, root, counters)
            pl = _recorded_pl(oc.raw) or pl
        classes = sorted({_v2_file_class(f[1], pl) for f in case["tree"]["files"]})
        nontrivial = any(c != "bpow2/ppow2/full/" for c in classes)
        counters["creator_" + r] = 1
        if case.get("prelude"):
            counters["cases_with_in_process_prelude"] = 1
        return {"violations": viol, "sig": [r, classes, case["pl_exp"]], "nontrivial": nontrivial,
                "counters": counters, "reach": reach.collect(),
                "sample": {"files": [[f[0], f[1]] for f in case["tree"]["files"][:10]], "piece_length": pl,
                           "creator": r, "roots_compared": counters.get("roots_compared", 0),
                           "layers_compared": counters.get("layers_compared", 0), "violations": len(viol)}}

    @staticmethod
    def classify(case, v):
        return None


# ---------------------------------------------------------------------- C03
class C03:
    id = "C03"
    quick, thorough = 1200, 24000
    timeout = 120
    rule = ("case = generated tree x piece length x hybrid creator (TorrentFileHybrid, TorrentAssembler('3'), "
            "CLI --meta-version 3); oracle compares info.files / info.length / info.pieces with the file tree and "
            "with reference SHA-1 hashing of the padded stream; non-trivial when a padding entry is required or a "
            "single file has a short last piece; distinct by (creator, single/multi, set of per-file remainder "
            "classes, trailing pad present, pl exponent)")
    required = ("pieces_compared", "pad_entries_checked", "single_cases", "multi_cases")
    assumptions = ("reference BEP 3 hashing is correct", "a trailing padding entry may be present or absent")

    @staticmethod
    def gen(rng, tier, i):
        c = _gen_common(rng, tier, ["TorrentFileHybrid", "Assembler3", "cli3"])
        if rng.random() < 0.15 and not c["tree"]["single"]:
            c["tree"] = gen.gen_tree(rng, 2 ** c["pl_exp"], tier, layout="single")
        # the align option next to the hybrid version: a hybrid is aligned by construction, the option adds nothing
        c["align_option"] = rng.random() < 0.25
        return _with_alias(rng, c)

    @staticmethod
    def run(case, scratch):
        r = case["route"]
        names = ["TorrentFileHybrid._traverse", "TorrentFileHybrid.assemble", "HasherHybrid.process_file"] \
            if r == "TorrentFileHybrid" else ["TorrentAssembler._traverse", "TorrentAssembler.assemble",
                                              "FileHasher.__next__"]
        root, out, reach = _setup(case, scratch, names)
        counters = {}
        oc = drive.create(r, spelled(case, root), os.path.join(out, "m.torrent"), piece_length=case["pl"],
                          progress=case["progress"], align=bool(case.get("align_option")), reuse=case.get("reuse"))
        if case.get("align_option"):
            counters["created_with_align_option"] = 1
        viol = []
        pl = 2 ** case["pl_exp"]
        if not oc.ok and _alias_refused(case, counters):
            pass
        elif not oc.ok:
            viol.append(oracles.V("create-raised", exc=oc.excname(), tb=oc.tb[-1500:]))
        else:
            viol += _judge(oracles.check_hybrid_views, case, oc.raw, root, counters)
            pl = _recorded_pl(oc.raw) or pl
        tree = case["tree"]
        if not tree["single"]:
            counters["multi_cases"] = 1
        rem = sorted({("0" if f[1] == 0 else "aligned" if f[1] % pl == 0 else "rem") for f in tree["files"]})
        sizes = [f[1] for f in tree["files"]]
        nontrivial = (tree["single"] and sizes[0] % pl != 0) or (not tree["single"] and any(s % pl for s in sizes))
        return {"violations": viol, "sig": [r, tree["single"], gen.tree_sig(tree, pl), rem, case["pl_exp"]],
                "nontrivial": nontrivial, "counters": counters, "reach": reach.collect(),
                "sample": {"files": [[f[0], f[1]] for f in tree["files"][:10]], "piece_length": pl, "creator": r,
                           "pad_entries_checked": counters.get("pad_entries_checked", 0),
                           "pieces_compared": counters.get("pieces_compared", 0), "violations": len(viol)}}

    @staticmethod
    def classify(case, v):
        return None


# ---------------------------------------------------------------------- C15
class C15:
    id = "C15"
    quick, thorough = 1200, 24000
    timeout = 120
    rule = ("case = generated tree x piece length x route (TorrentFile(align=True), CLI --align) x progress; "
            "oracle: every payload file starts on a piece boundary, pad length == gap, pad marked, pieces == "
            "reference hashing of the zero-padded stream, piece count == ceil(listed bytes / pl); non-trivial "
            "when a file needs padding, is empty, or a single file has a remainder; distinct by (single/multi, "
            "set of per-file remainder classes, pl exponent, route)")
    required = ("pad_entries_checked", "offsets_checked", "single_cases", "pieces_compared",
                "cases_path_given_via_list_option")
    assumptions = ("reference BEP 3 hashing is correct",)

    @staticmethod
    def gen(rng, tier, i):
        c = _gen_common(rng, tier, ["TorrentFile", "TorrentFile", "cli1"])
        if rng.random() < 0.12 and not c["tree"]["single"]:
            c["tree"] = gen.gen_tree(rng, 2 ** c["pl_exp"], tier, layout="single")
        return c

    @staticmethod
    def run(case, scratch):
        root, out, reach = _setup(case, scratch, ["TorrentFile.assemble", "Hasher._handle_partial", "Hasher.__next__"])
        counters = {}
        oc = drive.create(case["route"], spelled(case, root), os.path.join(out, "m.torrent"), piece_length=case["pl"],
                          progress=case["progress"], align=True, swallowed=case.get("swallowed"), reuse=case.get("reuse"))
        if case.get("swallowed"):
            counters["cases_path_given_via_list_option"] = 1
        viol = []
        pl = 2 ** case["pl_exp"]
        if not oc.ok:
            viol.append(oracles.V("create-raised", exc=oc.excname(), tb=oc.tb[-1500:]))
        else:
            viol += oracles.check_aligned_v1(oc.raw, root, counters)
            pl = _recorded_pl(oc.raw) or pl
        tree = case["tree"]

        def rc(s):
            if s == 0:
                return "empty"
            if s < pl:
                return "<P"
            r = s % pl
            return "kP" if r == 0 else "kP+1" if r == 1 else "kP-1" if r == pl - 1 else "kP+r"
        rem = sorted({rc(f[1]) for f in tree["files"]})
        nontrivial = any(f[1] % pl or f[1] == 0 for f in tree["files"])
        return {"violations": viol, "sig": [tree["single"], rem, case["pl_exp"], case["route"], tree["layout"]],
                "nontrivial": nontrivial, "counters": counters, "reach": reach.collect(),
                "sample": {"files": [[f[0], f[1]] for f in tree["files"][:10]], "piece_length": pl,
                           "route": case["route"], "pad_entries_checked": counters.get("pad_entries_checked", 0),
                           "violations": len(viol)}}

    @staticmethod
    def classify(case, v):
        return None


# ---------------------------------------------------------------------- C10
def mask_creation_date(raw):
    from ..ref import bencode as rb
    top, _ = rb.decode(raw)
    node = top.get(b"creation date")
    if node is None:
        return raw
    return raw[:node.start] + b"i0e" + raw[node.end:]


class C10:
    id = "C10"
    quick, thorough = 1800, 30000
    timeout = 120
    rule = ("case = either one file x piece length fed to HasherV2, HasherHybrid, FileHasher(hybrid=False), "
            "FileHasher(hybrid=True) (compare root, piece_layer, pieces, padding_file pairwise), or one tree + "
            "options fed to the paired creators (TorrentAssembler('2') vs TorrentFileV2, TorrentAssembler('3') vs "
            "TorrentFileHybrid; written files compared with creation date masked); non-trivial when a file "
            "exercises a BEP 52 padding rule, is empty or exactly one piece; distinct by (kind, pair, size "
            "classes, pl exponent, progress)")
    required = ("hasher_tuples_compared", "creator_pairs_v2", "creator_pairs_hybrid", "pieces_lists_compared",
                "creator_config_route_compared")
    assumptions = ("agreement only; C02/C03 tie one member of each pair to the specification",)

    @staticmethod
    def gen(rng, tier, i):
        exp = gen.pick_pl_exp(rng, tier)
        pl = 2 ** exp
        if rng.random() < 0.55:
            return {"kind": "hashers", "pl_exp": exp, "size": gen.pick_size(rng, pl) or rng.choice([1, pl, pl + 1]),
                    "cseed": rng.randrange(1 << 30), "progress": rng.choice([0, 1, 2]),
                    "pad": rng.random() < 0.8, "prelude": gen_prelude(rng)}
        c = _gen_common(rng, tier, ["v2pair", "hybridpair"])
        c["kind"] = "creators"
        c["opts"] = {}
        if rng.random() < 0.5:
            c["opts"]["announce"] = gen.pick_urls(rng)
        if rng.random() < 0.3:
            c["opts"]["url_list"] = gen.pick_urls(rng)
        if rng.random() < 0.3:
            c["opts"]["private"] = True
        if rng.random() < 0.3:
            c["opts"]["comment"] = "a comment"
        if rng.random() < 0.3:
            c["opts"]["source"] = "SRC"
        return c

    @staticmethod
    def run(case, scratch):
        hasher = drive.mod("hasher")
        from torrentfile.mixins import ProgMixin, ProgressBar
        counters, viol = {}, []
        pl = 2 ** case["pl_exp"]
        if case["kind"] == "hashers":
            path = os.path.join(scratch, "in", "f.bin")
            from ..harness import materialise_single
            materialise_single(path, case["size"], case["cseed"])
            run_prelude(case, scratch)
            reach = env.Reach()
            reach.start(_reach_funcs(["HasherV2.process_file", "HasherV2._calculate_root",
                                      "HasherHybrid.process_file", "HasherHybrid._pad_remaining",
                                      "HasherHybrid._calculate_root", "FileHasher.__next__",
                                      "FileHasher._pad_remaining", "FileHasher._calculate_root"]))

            def kw():
                p = case["progress"]
                if p == 0:
                    return {"progress": 0, "progress_bar": ProgMixin.NoProg()}
                if p == 2:
                    return {"progress": 2, "progress_bar": ProgressBar.new(case["size"], path)}
                return {"progress": 1}
            res = {}
            try:
                h2 = hasher.HasherV2(path, pl, **kw())
                res["HasherV2"] = (h2.root, h2.piece_layer, None, None)
                pad = case.get("pad", True)
                hk = {} if pad else {"pad": False}
                hh = hasher.HasherHybrid(path, pl, **kw(), **hk)
                res["HasherHybrid"] = (hh.root, hh.piece_layer, list(hh.pieces), hh.padding_file)
                def drain(h):
                    # the iterator may be consumed in one go, after a first next(), or in slices - same items either way
                    how = case["cseed"] % 3
                    if how == 1:
                        first = next(h, None)
                        return ([] if first is None else [first]) + list(h)
                    if how == 2:
                        import itertools
                        it = iter(h)
                        head = list(itertools.islice(it, 2))        # a slice first ...
                        return head + (list(it) if len(head) == 2 else [])      # ... then the rest (never asked again once exhausted)
                    return list(h)
                f0 = hasher.FileHasher(path, pl, hybrid=False, **kw())
                items0 = drain(f0)
                res["FileHasher"] = (f0.root, f0.piece_layer, None, None)
                f1 = hasher.FileHasher(path, pl, hybrid=True, **kw(), **hk)
                items1 = drain(f1)
                res["FileHasher(hybrid)"] = (f1.root, f1.piece_layer, list(f1.pieces), f1.padding_file)
                if b"".join(bytes(x) for x in items0) != bytes(f0.piece_layer or b""):
                    viol.append(oracles.V("filehasher-yield-vs-layer"))
                if [bytes(a) for a, _ in items1] != [bytes(x) for x in items0] or \
                        [bytes(b) for _, b in items1] != [bytes(x) for x in f1.pieces]:
                    viol.append(oracles.V("filehasher-hybrid-yield-mismatch"))
            except BaseException as exc:  # noqa
                import traceback
                viol.append(oracles.V("hasher-raised", exc=type(exc).__name__, tb=traceback.format_exc()[-1200:]))
            names = list(res)
            for i in range(len(names)):
                for j in range(i + 1, len(names)):
                    a, b = res[names[i]], res[names[j]]
                    if bytes(a[0] or b"") != bytes(b[0] or b""):
                        viol.append(oracles.V("root-disagree", a=names[i], b=names[j], size=case["size"], pl=pl))
                    if bytes(a[1] or b"") != bytes(b[1] or b""):
                        viol.append(oracles.V("layer-disagree", a=names[i], b=names[j], size=case["size"], pl=pl))
                    if a[2] is not None and b[2] is not None:
                        counters["pieces_lists_compared"] = counters.get("pieces_lists_compared", 0) + 1
                        if [bytes(x) for x in a[2]] != [bytes(x) for x in b[2]]:
                            viol.append(oracles.V("pieces-disagree", a=names[i], b=names[j], size=case["size"], pl=pl))
                        if a[3] != b[3]:
                            viol.append(oracles.V("padding-disagree", a=names[i], b=names[j], pa=a[3], pb=b[3]))
            counters["hasher_tuples_compared"] = 1 if len(res) == 4 else 0
            cls = _v2_file_class(case["size"], pl)
            return {"violations": viol, "sig": ["hashers", cls, case["pl_exp"], case["progress"], case.get("pad", True)],
                    "nontrivial": cls != "bpow2/ppow2/full/", "counters": counters, "reach": reach.collect(),
                    "sample": {"kind": "hashers", "size": case["size"], "piece_length": pl,
                               "compared": names, "root": res.get("HasherV2", (b"",))[0],
                               "padding_file": res.get("HasherHybrid", (0, 0, 0, None))[3], "violations": len(viol)}}
        pair = {"v2pair": ("Assembler2", "TorrentFileV2", "cli2"),
                "hybridpair": ("Assembler3", "TorrentFileHybrid", "cli3")}[case["route"]]
        root, out, reach = _setup(case, scratch, ["TorrentAssembler._traverse", "TorrentFileV2._traverse",
                                                  "TorrentFileHybrid._traverse"])
        raws = []
        for r in pair:
            oc = drive.create(r, root, os.path.join(out, r + ".torrent"), piece_length=case["pl"],
                              progress=case["progress"], **case["opts"])
            if not oc.ok:
                viol.append(oracles.V("create-raised", route=r, exc=oc.excname(), tb=oc.tb[-1200:]))
            else:
                raws.append(mask_creation_date(oc.raw))
        # the command line fed from a configuration file is one more way to reach the same creator
        o = case["opts"]
        flat = [str(v) for k in ("announce", "url_list") for v in (o.get(k) or [])] + [str(o.get("comment", "")), str(o.get("source", ""))]
        if case["pl"] is not None and not any("%" in v or v != v.strip() for v in flat):
            lines = ["[config]", f"meta-version = {pair[2][-1]}", f"piece-length = {case['pl']}"]
            for key, name in (("announce", "announce"), ("url_list", "web-seed")):
                if o.get(key):
                    lines.append(f"{name} =")
                    lines += ["    " + u for u in o[key]]
            if o.get("private"):
                lines.append("private = true")
            for key in ("comment", "source"):
                if o.get(key) is not None:
                    lines.append(f"{key} = {o[key]}")
            ini = os.path.join(out, "c.ini")
            with open(ini, "w", encoding="utf-8") as fd:
                fd.write("\n".join(lines) + "\n")
            cout = os.path.join(out, "config.torrent")
            oc = drive.cli_execute(["create", "--config", "--config-path", ini, "-o", cout, "--prog", str(case["progress"]), root])
            if not oc.ok:
                viol.append(oracles.V("create-raised", route="config", exc=oc.excname(), tb=(oc.tb or "")[-1200:]))
            else:
                with open(cout, "rb") as fd:
                    craw = mask_creation_date(fd.read())
                counters["creator_config_route_compared"] = 1
                if raws and craw != raws[0]:
                    viol.append(oracles.V("creator-pair-differs", pair=[pair[0], "cli --config"], len_a=len(raws[0]), len_b=len(craw)))
        if len(raws) == 3:
            counters["creator_pairs_v2" if case["route"] == "v2pair" else "creator_pairs_hybrid"] = 1
            for k in (1, 2):
                if raws[0] != raws[k]:
                    viol.append(oracles.V("creator-pair-differs", pair=[pair[0], pair[k]], len_a=len(raws[0]),
                                          len_b=len(raws[k])))
        classes = sorted({_v2_file_class(f[1], pl) for f in case["tree"]["files"]})
        return {"violations": viol, "sig": ["creators", case["route"], classes, case["pl_exp"], sorted(case["opts"])],
                "nontrivial": any(c != "bpow2/ppow2/full/" for c in classes), "counters": counters,
                "reach": reach.collect(),
                "sample": {"kind": "creators", "pair": pair, "files": [[f[0], f[1]] for f in case["tree"]["files"][:8]],
                           "piece_length": pl, "options": case["opts"], "identical": not viol}}

    @staticmethod
    def classify(case, v):
        return None
