"""C08 (info depends only on payload + info options) and C09 (no dependence on
earlier operations in the same process)."""
import os
import shutil
import subprocess
import sys

from .. import drive, gen, oracles
from ..harness import REPO, VERIF, content, fork_call, materialise
from ..monitors import env
from ..ref import bencode as rb
from .create_family import mask_creation_date

ROUTES = ["TorrentFile", "TorrentFileV2", "TorrentFileHybrid", "Assembler2", "Assembler3", "cli1", "cli2", "cli3"]


def _info_span(raw):
    top, _ = rb.decode(raw)
    info = top.get(b"info")
    return raw[info.start:info.end]


def _variant_run(v):
    """Executed in a grandchild."""
    os.chdir(v["cwd"])
    env.install_enum_order(v["enum"], v.get("enum_seed", 0))
    if v.get("clock_shift"):
        torrent = drive.mod("torrent")
        import datetime as _dt
        real = _dt.datetime
        shift = _dt.timedelta(days=v["clock_shift"])

        class Shifted(real):
            @classmethod
            def now(cls, tz=None):
                return real.now(tz) + shift
        torrent.datetime = Shifted
    if v.get("prelude"):
        # this variant's process did other work first (unjudged creations with other piece lengths)
        from .create_family import run_prelude
        run_prelude({"prelude": v["prelude"]}, os.path.join(v["cwd"], "..", "pre-" + str(os.getpid())))
    prefix = ["-q"] if v.get("quiet") else []
    if v["route"].startswith("cli") and v["path"].startswith("-"):
        v = dict(v, path="./" + v["path"])      # a relative path that looks like an option must be spelled ./-x on any CLI
    oc = drive.create(v["route"], v["path"], v["outfile"], piece_length=v["pl"], progress=v["progress"],
                      announce=v.get("announce"), url_list=v.get("url_list"), httpseeds=v.get("httpseeds"),
                      private=v.get("private", False), source=v.get("source"), comment=v.get("comment"),
                      cli_prefix=prefix)
    st = env.enum_stats()
    if not oc.ok:
        return {"exc": oc.excname(), "tb": oc.tb[-1200:], "enum": st}
    return {"raw": oc.raw, "enum": st, "outfile": oc.outfile}


_NEWPROC = r'''
import sys, os, pickle
sys.dont_write_bytecode = True
sys.path.insert(0, %(verif)r)
sys.path.insert(0, %(repo)r)
from vf.props import env_family
with open(sys.argv[1], "rb") as fd:
    v = pickle.load(fd)
devnull = os.open(os.devnull, os.O_RDWR)
os.dup2(devnull, 1); os.dup2(devnull, 2)
res = env_family._variant_run(v)
with open(sys.argv[2], "wb") as fd:
    pickle.dump(res, fd)
'''


def _variant_in_new_interpreter(v, hashseed, workdir):
    """The same creation in a brand-new interpreter whose string hashing is seeded differently (sets and dicts of
    strings iterate in another order there)."""
    import pickle
    os.makedirs(workdir, exist_ok=True)
    a, b = os.path.join(workdir, "arg.pkl"), os.path.join(workdir, "res.pkl")
    with open(a, "wb") as fd:
        pickle.dump(v, fd)
    envv = dict(os.environ, PYTHONHASHSEED=str(hashseed), PYTHONDONTWRITEBYTECODE="1")
    try:
        p = subprocess.run([sys.executable, "-B", "-c", _NEWPROC % {"verif": VERIF, "repo": REPO}, a, b], env=envv,
                           timeout=120, capture_output=True)
    except subprocess.TimeoutExpired:
        return "timeout", None
    if not os.path.exists(b):
        return "died", (p.stderr or b"")[-1500:].decode("utf-8", "replace")
    with open(b, "rb") as fd:
        return "ok", pickle.load(fd)


class C08:
    rule_extra = ("Later additions: variant 'out-inside-payload' (metafile saved as a new file inside its own content directory, on a private copy), variants run after other work in the same process, copies with other mtimes / modes; 5 % of the directory cases contain dangling symbolic links, where only the consistency of the outcome across variants is judged.")
    id = "C08"
    quick, thorough = 400, 8000
    timeout = 180
    rule = ("case = one tree + info options + creator; a base run and 12-16 metamorphic variants, each in its own "
            "forked process: path spellings (absolute, relative from several working directories, ./x, x//y, x/./y, "
            "x/y/../y, trailing /, //, /., '.' from inside), a byte-identical copy under another parent, permuted "
            "directory enumeration (reverse + shuffles; os.listdir/os.scandir wrapped), other tracker/seed lists, "
            "other output locations (file and dir/), progress 0/1/2, -q, clock shifted by days; oracle: raw info span "
            "identical across all variants, whole file minus creation date identical among variants that keep the "
            "top-level options; non-trivial when >= 4 variants compared and some directory has >= 2 entries; "
            "distinct by (creator, variant kinds present, layout, options)")
    required = ("variants_compared", "enum_nonsorted_variants", "spelling_variants", "relocated_variants",
                "tracker_variants", "clock_variants", "dot_ending_variants")
    assumptions = ("payload names valid UTF-8", "no symlinks, except dangling ones in 5 % and directory aliases (a link to a sibling directory) in 6 % of the directory cases, where "
                   "only the consistency of the outcome (refused by every variant, or the same info everywhere) is judged")

    @staticmethod
    def gen(rng, tier, i):
        exp = rng.choice([14, 14, 15, 16])
        tree = gen.gen_tree(rng, 2 ** exp, tier, maxp=3)
        if rng.random() < 0.06:
            # a directory symbolic link that is a second name for a directory of the payload (no cycle): whatever the
            # tool makes of it, the outcome may not depend on spelling, location or enumeration order
            (gen.add_file_alias if rng.random() < 0.35 else gen.add_dir_alias)(rng, tree)
        o = {}
        if rng.random() < 0.4:
            o["private"] = True
        if rng.random() < 0.4:
            o["source"] = rng.choice(["SRC", "x y"])
        if rng.random() < 0.4:
            o["comment"] = rng.choice(["c", "a comment"])
        return {"tree": tree, "pl_exp": exp, "route": rng.choice(ROUTES), "opts": o,
                "pl_auto": rng.random() < 0.15, "seed": rng.randrange(1 << 30),
                # dangling symbolic links among the payload: refusing the tree or skipping the links are both fine,
                # but the outcome may not depend on spelling, location or enumeration order either
                "dangling": (not tree["single"]) and rng.random() < 0.05,
                "announce": gen.pick_urls(rng) if rng.random() < 0.6 else None}

    @staticmethod
    def run(case, scratch):
        import random
        rng = random.Random(case["seed"])
        torrent, utils = drive.mod("torrent"), drive.mod("utils")
        tree = case["tree"]
        name = tree["name"]
        A = os.path.join(scratch, "A", "deep")
        Bp = os.path.join(scratch, "B", "else", "where")
        for base in (A, Bp):
            if tree["single"]:
                materialise(base, [[name, tree["files"][0][1], tree["files"][0][2]]])
            else:
                materialise(os.path.join(base, name), tree["files"], tree["dirs"], tree.get("links", ()))
        root = os.path.join(A, name)
        outdir = os.path.join(scratch, "out")
        os.makedirs(outdir)
        os.makedirs(os.path.join(scratch, "cwd2"))
        n = [0]

        def variant(kind, **kw):
            n[0] += 1
            v = {"kind": kind, "cwd": scratch, "path": root, "enum": "sorted", "route": case["route"],
                 "pl": None if case["pl_auto"] else 2 ** case["pl_exp"], "progress": 1,
                 "outfile": os.path.join(outdir, f"v{n[0]}.torrent"), "announce": case["announce"]}
            v.update(case["opts"])
            v.update(kw)
            return v

        isdir = not tree["single"]
        variants = [variant("base")]
        sp = [("rel-from-parent", dict(cwd=A, path=name)),
              ("rel-from-scratch", dict(cwd=scratch, path=os.path.join("A", "deep", name))),
              ("dot-slash", dict(cwd=A, path="./" + name)),
              ("double-sep", dict(cwd=scratch, path="A//deep//" + name)),
              ("dot-segment", dict(cwd=scratch, path="A/./deep/./" + name)),
              ("dotdot-segment", dict(cwd=scratch, path="A/deep/../deep/" + name)),
              ("updown", dict(cwd=os.path.join(scratch, "cwd2"), path="../A/deep/" + name))]
        if isdir:
            sp += [("trailing-slash", dict(path=root + "/")), ("trailing-2slash", dict(path=root + "//")),
                   ("trailing-slash-dot", dict(path=root + "/.")), ("dot-from-inside", dict(cwd=root, path=".")),
                   ("child-dotdot", None), ("dotdot-from-child", None), ("dotdot-chain-from-grandchild", None)]
        rng.shuffle(sp)
        dotend = 0
        for kind, kw in sp[:6 if isdir else 5]:
            if kind == "child-dotdot":
                # (a real sub-directory: '<link>/..' is the parent of the link's TARGET for the kernel, another directory)
                subdirs = [d for d in sorted(os.listdir(root)) if os.path.isdir(os.path.join(root, d))
                           and not os.path.islink(os.path.join(root, d))]
                if not subdirs:
                    continue
                kw = dict(path=os.path.join(root, subdirs[0], ".."))
            if kind in ("dotdot-from-child", "dotdot-chain-from-grandchild"):
                # the path consists of upward segments only: '..' typed inside a sub-directory of the payload
                # ('../..' inside a sub-sub-directory, 'deep/../..' one level further up)
                subs = [os.path.join(dp, d) for dp, dns, _ in os.walk(root) for d in dns
                        if not os.path.islink(os.path.join(dp, d))]
                want = 1 if kind == "dotdot-from-child" else 2
                subs = sorted(x for x in subs if os.path.relpath(x, root).count(os.sep) == want - 1)
                if not subs:
                    continue
                kw = dict(cwd=subs[0], path=rng.choice(["..", "../", "./.."]) if want == 1 else rng.choice(["../..", "../../", ".././.."]))
            if kind in ("trailing-slash-dot", "dot-from-inside", "child-dotdot", "dotdot-from-child", "dotdot-chain-from-grandchild"):
                dotend += 1
            variants.append(variant("spelling:" + kind, **kw))
        variants.append(variant("relocated", path=os.path.join(Bp, name)))
        # the same tree reached through a symbolic link in the ANCESTRY of the content path (the payload itself holds
        # no link, its name is the same): <scratch>/via-link -> A/deep
        lk = os.path.join(scratch, "via-link")
        os.symlink(A, lk)
        variants.append(variant("relocated-through-symlinked-parent", path=os.path.join(lk, name)))
        variants.append(variant("relocated-through-symlinked-parent-relative", cwd=scratch, path=os.path.join("via-link", name)))
        # same bytes, other metadata: modification times and permission bits are not part of the payload
        Cp = os.path.join(scratch, "C", "stat")
        if tree["single"]:
            materialise(Cp, [[name, tree["files"][0][1], tree["files"][0][2]]])
        else:
            materialise(os.path.join(Cp, name), tree["files"], tree["dirs"], tree.get("links", ()))
        for dp, dns, fns in os.walk(Cp):
            for fn in fns:
                fp = os.path.join(dp, fn)
                os.utime(fp, (rng.randrange(10 ** 9), rng.randrange(10 ** 9)))
                os.chmod(fp, rng.choice([0o600, 0o640, 0o755, 0o444]))
            for dn in dns:
                os.utime(os.path.join(dp, dn), (5, 5))
        variants.append(variant("relocated-other-mtime-and-mode", path=os.path.join(Cp, name)))
        variants.append(variant("enum:reverse", enum="reverse"))
        for k in range(2):
            variants.append(variant("enum:shuffle", enum="shuffle", enum_seed=rng.randrange(1000)))
        variants.append(variant("trackers", announce=gen.pick_urls(rng, 1, 3), url_list=gen.pick_urls(rng, 1, 2),
                                httpseeds=gen.pick_urls(rng, 1, 2)))
        variants.append(variant("no-trackers", announce=None))
        variants.append(variant("outdir", outfile=os.path.join(outdir, "sub") + "/"))
        os.makedirs(os.path.join(outdir, "sub"))
        if isdir:
            # the metafile is saved INSIDE the content directory (a new file there): the payload is what the
            # directory held when create was asked, wherever the result is put (own copy: it gains a file)
            Dp = os.path.join(scratch, "D", "inside")
            materialise(os.path.join(Dp, name), tree["files"], tree["dirs"], tree.get("links", ()))
            variants.append(variant("out-inside-payload", path=os.path.join(Dp, name),
                                    outfile=os.path.join(Dp, name, rng.choice(["saved here.torrent", "0.torrent", "zz.torrent"]))))
        variants.append(variant("progress0", progress=0))
        variants.append(variant("progress2", progress=2))
        variants.append(variant("clock", clock_shift=rng.choice([-400, 3, 9000])))
        from .create_family import gen_prelude
        pre = gen_prelude(rng) or gen_prelude(rng) or gen_prelude(rng)
        if pre:
            variants.append(variant("after-other-work", prelude=pre))
        if case["route"].startswith("cli"):
            variants.append(variant("quiet", quiet=True))
        if case.get("dangling"):
            for copy_root in {v["path"] for v in variants if os.path.isabs(v["path"])}:
                copy_root = os.path.normpath(copy_root)
                if os.path.isdir(copy_root) and os.path.basename(copy_root) == name:
                    subs = [copy_root] + [os.path.join(copy_root, d) for d in sorted(os.listdir(copy_root))
                                          if os.path.isdir(os.path.join(copy_root, d))][:1]
                    for d in subs:
                        for ln in ("0-dangling", "m-dangling", "zz-dangling"):
                            if not os.path.lexists(os.path.join(d, ln)):
                                os.symlink("nowhere/at/all", os.path.join(d, ln))
        # trackers given with a repetition, created in interpreters with different string-hash seeds: the files
        # must agree with each other (and, in their info dictionary, with everything else)
        dup = gen.pick_urls(rng, 2, 4)
        dup = dup + [dup[0]] + ([dup[1]] if rng.random() < 0.5 else [])
        for hs in (rng.sample(range(1, 1000), 2) if rng.random() < 0.5 else []):
            variants.append(variant("hashseed-dup-trackers", announce=dup, hashseed=hs))
        results = []
        for v in variants:
            if v.get("hashseed"):
                st, val = _variant_in_new_interpreter(v, v["hashseed"], os.path.join(scratch, "np", str(v["hashseed"])))
            else:
                st, val = fork_call(_variant_run, v, timeout=120)
            if st != "ok":
                return {"inconclusive": f"variant process {st}", "traceback": str(val)[:1500]}
            results.append(val)
        counters, viol = {}, []
        base = results[0]
        has_link = case.get("dangling") or any(len(l) > 2 for l in tree.get("links", ()))
        if "raw" not in base and has_link:
            # a payload holding a symbolic link (dangling, or a second name for one of its directories / files) may be
            # refused - by every variant alike
            ok = [v["kind"] for v, r in zip(variants, results) if "raw" in r]
            if ok:
                viol.append(oracles.V("outcome-differs", base_error=base["exc"], variants_that_succeeded=ok[:8]))
            return {"violations": viol, "counters": {"dangling_link_cases": int(bool(case.get("dangling"))),
                                                     "cases_with_symlink_alias_in_payload": int(not case.get("dangling")),
                                                     "dangling_refused_by_every_variant": int(not ok)},
                    "nontrivial": True, "sig": ["dangling", case["route"], tree["layout"]],
                    "sample": {"route": case["route"], "base_error": base["exc"], "variants": len(variants)}}
        if "raw" not in base:
            viol.append(oracles.V("create-raised", variant="base", exc=base["exc"], tb=base["tb"]))
            return {"violations": viol, "counters": counters, "nontrivial": False, "sig": ["base-failed"],
                    "sample": {"route": case["route"], "base_error": base["exc"]}}
        binfo = _info_span(base["raw"])
        bmask = mask_creation_date(base["raw"])
        compared = 0
        hs_files = {}
        for v, r in zip(variants[1:], results[1:]):
            kind = v["kind"]
            if "raw" not in r:
                viol.append(oracles.V("create-raised", variant=kind, exc=r["exc"], tb=r["tb"], path=v["path"]))
                continue
            compared += 1
            if _info_span(r["raw"]) != binfo:
                try:
                    t1, i1, _ = oracles.decode_meta(base["raw"])
                    t2, i2, _ = oracles.decode_meta(r["raw"])
                    diffkeys = sorted(k.decode("latin-1") for k in set(i1.keys()) | set(i2.keys())
                                      if (i1.get(k) and base["raw"][i1.get(k).start:i1.get(k).end]) !=
                                      (i2.get(k) and r["raw"][i2.get(k).start:i2.get(k).end]))
                    nm = [i1.get(b"name").value, i2.get(b"name").value]
                except Exception:
                    diffkeys, nm = None, None
                viol.append(oracles.V("info-differs", variant=kind, path=v["path"], cwd=os.path.relpath(v["cwd"], scratch),
                                      differing_info_keys=diffkeys, names=nm))
            elif kind == "hashseed-dup-trackers":
                hs_files.setdefault(mask_creation_date(r["raw"]), []).append(v["hashseed"])
                counters["new_interpreter_hashseed_variants"] = counters.get("new_interpreter_hashseed_variants", 0) + 1
            elif kind not in ("trackers", "no-trackers") and mask_creation_date(r["raw"]) != bmask:
                viol.append(oracles.V("file-differs-beyond-creation-date", variant=kind))
            if kind.startswith("enum") and r["enum"]["nonsorted"] > 0:
                counters["enum_nonsorted_variants"] = counters.get("enum_nonsorted_variants", 0) + 1
            if kind.startswith("spelling"):
                counters["spelling_variants"] = counters.get("spelling_variants", 0) + 1
            if kind == "relocated":
                counters["relocated_variants"] = counters.get("relocated_variants", 0) + 1
            if kind in ("trackers", "no-trackers"):
                counters["tracker_variants"] = counters.get("tracker_variants", 0) + 1
            if kind == "clock":
                counters["clock_variants"] = counters.get("clock_variants", 0) + 1
        if len(hs_files) > 1:
            viol.append(oracles.V("file-differs-between-interpreters", hash_seeds=sorted(hs_files.values())[:4],
                                  distinct_files=len(hs_files)))
        counters["dot_ending_variants"] = dotend
        if any(len(l) > 2 for l in tree.get("links", ())):
            counters["cases_with_symlink_alias_in_payload"] = 1
        counters["variants_compared"] = compared
        multi_entry = len(tree["files"]) >= 2
        kinds = sorted({v["kind"] for v in variants})
        return {"violations": viol, "counters": counters, "nontrivial": compared >= 4 and multi_entry,
                "evaluations": compared + 1,
                "sig": [case["route"], kinds, tree["layout"], sorted(case["opts"]), case["pl_auto"]],
                "sample": {"route": case["route"], "files": [[f[0], f[1]] for f in tree["files"][:6]],
                           "variants": [[v["kind"], os.path.relpath(v["cwd"], scratch), v["path"].replace(scratch, "<S>")]
                                        for v in variants][:20],
                           "info_sha1": __import__("hashlib").sha1(binfo).hexdigest(), "violations": len(viol)}}

    @staticmethod
    def classify(case, v):
        return None


# ---------------------------------------------------------------------- C09
OPS_DOC = "create1/2/3 (lib or CLI, pl given or auto), fs add/delete/grow/shrink/rewrite, edit, recheck, rebuild, magnet"

_SERVER = r'''
import sys, os, pickle, struct
sys.dont_write_bytecode = True
sys.path.insert(0, %(verif)r)
sys.path.insert(0, %(repo)r)
from vf.props import env_family
env_family.serve()
'''


_KEPT = {}


def _do_op(op, sandbox):
    """Execute one repository operation inside the current process; returns a
    picklable observation.  Paths inside op are relative to the sandbox."""
    os.chdir(sandbox)
    p = lambda rel: os.path.join(sandbox, rel)  # noqa: E731
    kind = op["op"]
    if kind == "create" and op["route"] == "config":
        # create driven by a configuration file; every call names its own file with its own subset of keys
        out = p(op["out"])
        ini = p(op["ini_path"])
        os.makedirs(os.path.dirname(ini), exist_ok=True)
        lines = ["[config]"]
        for k, v in op["ini"].items():
            lines.append(f"{k} =" + ("".join("\n    " + x for x in v) if isinstance(v, list) else " " + str(v)))
        lines.append("out = " + out)
        with open(ini, "w", encoding="utf-8") as fd:
            fd.write("\n".join(lines) + "\n")
        oc = drive.cli_execute(["create", "--config", "--config-path", ini, "--prog", "0", p(op["path"])])
        if not oc.ok:
            return {"exc": oc.excname()}
        try:
            with open(out, "rb") as fd:
                return {"raw": mask_creation_date(fd.read())}
        except OSError as e:
            return {"exc": "no-output:" + type(e).__name__}
    if kind == "create" and op.get("out") is None:
        # no output named: the metafile goes to the documented default place; WHERE it went is part of the result
        before = set(os.listdir(sandbox))
        oc = drive.create(op["route"], p(op["path"]), None, piece_length=op.get("pl"), progress=op.get("progress", 0),
                          cli_prefix=op.get("prefix") or ())
        if not oc.ok:
            return {"exc": oc.excname()}
        where = os.path.relpath(os.path.abspath(oc.outfile), sandbox)
        new_here = sorted(set(os.listdir(sandbox)) - before)
        res = {"raw": mask_creation_date(oc.raw), "where": where if not where.startswith("..") else "<outside the sandbox>",
               "new_entries_in_cwd": new_here}
        for n in new_here:
            if n.endswith(".torrent"):
                os.remove(os.path.join(sandbox, n))
        return res
    if kind == "create":
        out = p(op["out"])
        oc = drive.create(op["route"], p(op["path"]), out, piece_length=op.get("pl"), progress=op.get("progress", 0),
                          cli_prefix=op.get("prefix") or ())
        if not oc.ok:
            return {"exc": oc.excname()}
        return {"raw": mask_creation_date(oc.raw)}
    if kind == "recheck-prepare":
        # a Checker is built now and asked later (a GUI prepares a job list): other Checker objects are built and used
        # in between; a fresh interpreter builds the object when the answer is asked for
        key = (p(op["meta"]), p(op["content"]))
        recheck = drive.mod("recheck")
        try:
            _KEPT[key] = recheck.Checker(*key)
            return {"ret": "prepared"}
        except BaseException as exc:  # noqa
            _KEPT.pop(key, None)
            return {"exc": type(exc).__name__}
    if kind == "recheck" and op.get("via") == "lib" and op.get("keep_object"):
        # the interpreter keeps the Checker object of an earlier identical request and asks it again (a fresh
        # interpreter has none and builds one): the object may not remember anything that matters
        key = (p(op["meta"]), p(op["content"]))
        recheck = drive.mod("recheck")
        try:
            chk = _KEPT.get(key)
            if chk is None:
                chk = _KEPT[key] = recheck.Checker(*key)
            oc = drive._as_number(drive.Outcome(ret=chk.results()))
            return {"ret": oc.ret}
        except BaseException as exc:  # noqa
            _KEPT.pop(key, None)
            return {"exc": type(exc).__name__}
    if kind == "recheck":
        oc = drive.recheck_lib(p(op["meta"]), p(op["content"])) if op.get("via") == "lib" else \
            drive.recheck_cli(p(op["meta"]), p(op["content"]), prefix=op.get("prefix") or ())
        return {"exc": oc.excname()} if not oc.ok else {"ret": oc.ret}
    if kind == "magnet":
        commands = drive.mod("commands")
        try:
            return {"ret": commands.magnet(p(op["meta"]))}
        except BaseException as exc:  # noqa
            return {"exc": type(exc).__name__}
    if kind == "edit":
        edit = drive.mod("edit")
        try:
            edit.edit_torrent(p(op["meta"]), dict(op["args"]))
            with open(p(op["meta"]), "rb") as fd:
                return {"raw": mask_creation_date(fd.read())}
        except BaseException as exc:  # noqa
            return {"exc": type(exc).__name__}
    if kind == "rebuild":
        rebuild = drive.mod("rebuild")
        dest = p(op["dest"])
        if op.get("block_dest"):
            os.makedirs(dest, exist_ok=True)
            with open(os.path.join(dest, "p"), "wb") as fd:        # the payload directory is called 'p'
                fd.write(b"in the way")
        try:
            if op.get("via") == "cli":
                oc = drive.cli_execute(list(op.get("prefix") or ()) + ["rebuild", "-m", p(op["meta"]), "-c", p(op["search"]), "-d", dest])
                if not oc.ok:
                    return {"exc": oc.excname()}
                ret = oc.ret
            else:
                ret = rebuild.Assembler([p(op["meta"])], [p(op["search"])], dest).assemble_torrents()
        except BaseException as exc:  # noqa
            return {"exc": type(exc).__name__}
        snap = env.snapshot(dest) if os.path.exists(dest) else {}
        return {"ret": ret, "snap": {k: v[:3] for k, v in snap.items()}}
    raise ValueError(kind)


def serve():
    """Long-lived executor: reads pickled (op, sandbox) frames from stdin."""
    import pickle
    import struct
    env.install_enum_order("sorted")
    drive._mods()          # the package is imported where the process STARTS, before any change of directory
    inp, out = sys.stdin.buffer, os.fdopen(os.dup(1), "wb")
    devnull = os.open(os.devnull, os.O_WRONLY)
    os.dup2(devnull, 1)
    os.dup2(devnull, 2)
    sys.stdout = open(1, "w", closefd=False)
    sys.stderr = open(2, "w", closefd=False)
    while True:
        hdr = inp.read(4)
        if len(hdr) < 4:
            return
        (ln,) = struct.unpack("<I", hdr)
        op, sandbox = pickle.loads(inp.read(ln))
        try:
            res = _do_op(op, sandbox)
        except BaseException as exc:  # noqa
            import traceback
            res = {"harness_error": traceback.format_exc()}
        blob = pickle.dumps(res)
        out.write(struct.pack("<I", len(blob)) + blob)
        out.flush()


class _Server:
    def __init__(self, cwd=None):
        code = _SERVER % {"verif": VERIF, "repo": REPO}
        envv = dict(os.environ, PYTHONHASHSEED="0", PYTHONDONTWRITEBYTECODE="1")
        self.p = subprocess.Popen([sys.executable, "-B", "-c", code], stdin=subprocess.PIPE, stdout=subprocess.PIPE,
                                  stderr=subprocess.DEVNULL, env=envv, cwd=cwd)

    def call(self, op, sandbox):
        import pickle
        import struct
        blob = pickle.dumps((op, sandbox))
        self.p.stdin.write(struct.pack("<I", len(blob)) + blob)
        self.p.stdin.flush()
        hdr = self.p.stdout.read(4)
        if len(hdr) < 4:
            return {"harness_error": "server died"}
        (ln,) = struct.unpack("<I", hdr)
        return pickle.loads(self.p.stdout.read(ln))

    def close(self):
        try:
            self.p.stdin.close()
            self.p.wait(timeout=10)
        except Exception:
            self.p.kill()


def _fresh(op, sandbox):
    s = _Server(cwd=sandbox)        # a fresh interpreter started where the user is; the long-lived one was started elsewhere
    try:
        return s.call(op, sandbox)
    finally:
        s.close()


def _apply_fs(op, sandbox):
    path = os.path.join(sandbox, op["path"])
    k = op["op"]
    if k == "add" or k == "rewrite":
        os.makedirs(os.path.dirname(path), exist_ok=True)
        st = os.stat(path) if op.get("keep_mtime") and os.path.exists(path) else None
        with open(path, "wb") as fd:
            fd.write(content(op["cseed"], op["size"]))
        if st is not None:
            os.utime(path, ns=(st.st_atime_ns, st.st_mtime_ns))     # cp -p / rsync -t: new bytes, old timestamps
    elif k == "delete":
        if os.path.exists(path):
            os.remove(path)
    elif k == "grow":
        with open(path, "ab") as fd:
            fd.write(content(op["cseed"], op["by"]))
    elif k == "shrink":
        with open(path, "r+b") as fd:
            fd.truncate(op["to"])
    elif k == "dangle":
        os.makedirs(os.path.dirname(path), exist_ok=True)
        if not os.path.lexists(path):
            os.symlink("nowhere/at/all", path)
    elif k == "undangle":
        if os.path.islink(path):
            os.remove(path)


class C09:
    rule_extra = ('Later additions: histories contain operations that FAIL (hostile / undecodable metafiles, v2 metafiles whose deepest leaf lacks its length or root) followed by the same kind of operation on a good metafile, same-size rewrites that keep the mtime, and payloads crossing the automatic piece-length thresholds.')
    id = "C09"
    quick, thorough = 96, 1200
    timeout = 400
    rule = ("case = history of 6-15 steps over {" + OPS_DOC + "} on twin byte-identical sandboxes: every repository "
            "operation runs on sandbox A inside ONE long-lived interpreter and on sandbox B in a FRESH interpreter "
            "per step; filesystem mutations are applied to both by the harness; after every step the observables "
            "(metafile bytes minus creation date, exception type, recheck percentage, magnet URI, rebuilt tree "
            "snapshot) are compared; non-trivial when the history has create p -> mutation under p -> another "
            "operation on p; distinct by the operation-kind sequence")
    required = ("steps_compared", "create_mutate_create", "repeat_creates_served_by_long_lived", "recheck_steps",
                "rebuild_steps", "edit_steps", "magnet_steps", "failing_operation_steps")
    assumptions = ("both executors install the same deterministic directory enumeration (enumeration order is C08's concern)",)

    @staticmethod
    def gen(rng, tier, i):
        pl = 16384
        nfiles = rng.randint(2, 5)
        files = [[f"f{k}", rng.choice([5, 100, 16384, 20000, 40000, 70000]), rng.randrange(1 << 30)] for k in range(nfiles)]
        if rng.random() < 0.5:
            files.append(["sub/g", rng.choice([1, 16385, 33000]), rng.randrange(1 << 30)])
        hist = []
        live = {f[0]: f[1] for f in files}
        metas = []          # (out, version)
        nsteps = rng.randint(6, 15) if tier == "quick" else rng.choice([8, 12, 15, 25, 40])
        big = rng.random() < (0.15 if tier == "thorough" else 0.06)
        fresh_id = [0]

        def mk_create():
            ver = rng.choice([1, 2, 3])
            route = rng.choice({1: ["TorrentFile", "cli1"], 2: ["TorrentFileV2", "Assembler2", "cli2"],
                                3: ["TorrentFileHybrid", "Assembler3", "cli3"]}[ver])
            fresh_id[0] += 1
            out = f"meta/m{fresh_id[0]}.torrent"
            metas.append((out, ver))
            if rng.random() < 0.15:
                metas.pop()
                out = None               # default output location (the current directory)
            return {"op": "create", "route": route, "path": "p", "out": out,
                    "pl": rng.choice([None, None, 14, 16384, 15, 16]), "progress": rng.choice([0, 1, 2]),
                    "prefix": rng.choice([None, None, ["-q"], ["-v"]])}

        def mk_config_create():
            ver = rng.choice([1, 2, 3])
            fresh_id[0] += 1
            out = f"meta/m{fresh_id[0]}.torrent"
            metas.append((out, ver))
            ini = {"meta-version": ver}
            for k, v in (("comment", "c" + str(fresh_id[0])), ("source", "S" + str(fresh_id[0])), ("private", "true"),
                         ("announce", gen.pick_urls(rng, 1, 3)), ("web-seed", gen.pick_urls(rng, 1, 2)),
                         ("http-seed", gen.pick_urls(rng, 1, 2)), ("piece-length", rng.choice([14, 15, 16384, 65536])),
                         ("align", "true")):
                if rng.random() < 0.4:
                    ini[k] = v
            return {"op": "create", "route": "config", "path": "p", "out": out, "ini": ini,
                    "ini_path": rng.choice([f"cfg/c{fresh_id[0]}.ini", "cfg/same.ini"])}

        def mk_mut():
            k = rng.choice(["add", "delete", "grow", "shrink", "rewrite"])
            names = sorted(live)
            if k == "add" or not names:
                fresh_id[0] += 1
                nm = rng.choice([f"new{fresh_id[0]}", f"sub/new{fresh_id[0]}", f"a{fresh_id[0]}"])
                size = rng.choice([1, 50, 16384, 30000])
                live[nm] = size
                return {"op": "add", "path": "p/" + nm, "size": size, "cseed": rng.randrange(1 << 30)}
            nm = rng.choice(names)
            if k == "delete" and len(names) > 1:
                del live[nm]
                return {"op": "delete", "path": "p/" + nm}
            if k == "grow":
                by = rng.choice([1, 100, 16384, 50000]) if not big else 17_000_000
                live[nm] += by
                return {"op": "grow", "path": "p/" + nm, "by": by, "cseed": rng.randrange(1 << 30)}
            if k == "shrink" and live[nm] > 1:
                to = rng.choice([0, 1, live[nm] // 2, live[nm] - 1])
                live[nm] = to
                return {"op": "shrink", "path": "p/" + nm, "to": to}
            size = rng.choice([live[nm], live[nm], live[nm] + 1, 77])
            live[nm] = size
            return {"op": "rewrite", "path": "p/" + nm, "size": size, "cseed": rng.randrange(1 << 30),
                    "keep_mtime": rng.random() < 0.5}

        hist.append(mk_create())
        # guarantee the interesting shape early
        hist.append(mk_mut())
        hist.append(mk_create())
        if rng.random() < 0.12:
            # a walk that fails half-way (dangling symbolic link in a sub-directory), the cause repaired, then the
            # same walk again: whatever the failed walk left behind in the process may not matter
            fresh_id[0] += 1
            live[f"sub/keep{fresh_id[0]}"] = 300
            hist.append({"op": "add", "path": f"p/sub/keep{fresh_id[0]}", "size": 300, "cseed": rng.randrange(1 << 30)})
            hist.append({"op": "dangle", "path": "p/sub/zz-dangling"})
            c1 = mk_create()
            if c1["out"]:
                metas.pop()                       # may fail: not a metafile later steps can rely on
            c1["path"] = rng.choice(["p", "p/sub"])
            hist.append(c1)
            hist.append({"op": "undangle", "path": "p/sub/zz-dangling"})
            hist.append(mk_create())
        if rng.random() < 0.35 and metas:
            # targeted shape: an operation that hashes candidates, a same-size in-place rewrite, the same operation again
            m, _ = metas[-1]
            names = sorted(n for n in live if live[n] > 0)
            if names:
                nm = rng.choice(names)
                fresh_id[0] += 1
                hist.append({"op": "rebuild", "meta": m, "search": ".", "dest": f"dest{fresh_id[0]}", "via": "lib"})
                hist.append({"op": "rewrite", "path": "p/" + nm, "size": live[nm], "cseed": rng.randrange(1 << 30),
                             "keep_mtime": rng.random() < 0.6})
                fresh_id[0] += 1
                hist.append({"op": "rebuild", "meta": m, "search": ".", "dest": f"dest{fresh_id[0]}",
                             "via": rng.choice(["lib", "cli"])})
                hist.append({"op": "recheck", "meta": m, "content": "p", "via": "lib"})
                hist.append(mk_create())
        while len(hist) < nsteps:
            c = rng.random()
            if rng.random() < 0.12:
                # an operation that FAILS (refused / undecodable metafile): whatever it leaves behind in the process
                # must not influence later operations
                fresh_id[0] += 1
                bad = rng.choice(["meta/unsafe.torrent", "meta/garbage.torrent", "meta/nolength.torrent",
                                  "meta/nolength.torrent", "meta/noroot.torrent", "metabad", "metabad"])
                if metas and rng.random() < 0.25:
                    # a rebuild that FAILS HALF-WAY: a regular file sits where the torrent's directory must be created
                    hist.append({"op": "rebuild", "meta": rng.choice(metas)[0], "search": ".", "dest": f"dest{fresh_id[0]}",
                                 "via": rng.choice(["lib", "cli"]), "block_dest": True})
                    fresh_id[0] += 1
                    hist.append({"op": "rebuild", "meta": rng.choice(metas)[0], "search": ".", "dest": f"dest{fresh_id[0]}",
                                 "via": rng.choice(["lib", "cli"])})
                    continue
                if bad == "metabad":
                    hist.append({"op": "rebuild", "meta": bad, "search": ".", "dest": f"dest{fresh_id[0]}",
                                 "via": rng.choice(["lib", "cli"]), "prefix": rng.choice([None, ["-q"], ["-v"]])})
                    continue
                hist.append({"op": "recheck", "meta": bad, "content": "p", "via": rng.choice(["lib", "cli"])}
                            if "no" in bad and rng.random() < 0.6 else rng.choice([
                    {"op": "rebuild", "meta": bad, "search": ".", "dest": f"dest{fresh_id[0]}", "via": rng.choice(["lib", "cli"])},
                    {"op": "recheck", "meta": bad, "content": "p", "via": "lib"},
                    {"op": "magnet", "meta": bad}]))
                if metas and rng.random() < 0.6:
                    # ... and the same kind of operation on a good metafile right afterwards
                    hist.append({"op": "recheck", "meta": rng.choice(metas)[0], "content": rng.choice(["p", "."]), "via": "lib"})
                continue
            if c < 0.28:
                hist.append(mk_mut())
                kept = [h for h in hist if h.get("keep_object")]
                if kept and rng.random() < 0.5:
                    hist.append(dict(kept[-1]))         # the same request again, after the payload changed
            elif c < 0.5:
                if rng.random() < 0.75:
                    hist.append(mk_create())
                else:
                    hist.append(mk_config_create())
                    if rng.random() < 0.6:
                        hist.append(mk_config_create())      # ... and another one with another subset of keys
            elif c < 0.65 and metas and len(metas) > 1 and rng.random() < 0.3:
                # two Checker objects alive at once: A is built, B is built and asked, then A is asked
                (ma, _), (mb, _) = rng.sample(metas, 2)
                ca = rng.choice(["p", "."])
                hist.append({"op": "recheck-prepare", "meta": ma, "content": ca})
                hist.append({"op": "recheck", "meta": mb, "content": rng.choice(["p", "."]), "via": "lib"})
                hist.append({"op": "recheck", "meta": ma, "content": ca, "via": "lib", "keep_object": True})
            elif c < 0.65 and metas:
                m, _ = rng.choice(metas)
                hist.append({"op": "recheck", "meta": m, "content": rng.choice(["p", "."]), "via": rng.choice(["lib", "cli"]),
                             "keep_object": rng.random() < 0.5,
                             "prefix": rng.choice([None, None, ["-q"], ["-v"]])})
            elif c < 0.75 and metas:
                m, _ = rng.choice(metas)
                hist.append({"op": "magnet", "meta": m})
            elif c < 0.87 and metas:
                m, _ = rng.choice(metas)
                args = rng.choice([{"comment": "c" + str(len(hist))}, {"announce": "http://t/" + str(len(hist))},
                                   {"source": "s"}, {"url-list": ["http://w/" + str(len(hist))]}, {"comment": ""}])
                hist.append({"op": "edit", "meta": m, "args": args})
            elif metas:
                m, _ = rng.choice(metas)
                fresh_id[0] += 1
                hist.append({"op": "rebuild", "meta": m, "search": ".", "dest": f"dest{fresh_id[0]}",
                             "via": rng.choice(["lib", "cli"]), "prefix": rng.choice([None, None, ["-q"], ["-v"]])})
            else:
                hist.append(mk_mut())
        return {"files": files, "history": hist, "big": big}

    @staticmethod
    def run(case, scratch):
        SA, SB = os.path.join(scratch, "SA"), os.path.join(scratch, "SB")
        from ..ref import torrent as rt
        unsafe = rt.build("..", files=[(("x", "leaf"), b"abc")], pl=16384, version=1)
        for sb in (SA, SB):
            materialise(os.path.join(sb, "p"), case["files"])
            os.makedirs(os.path.join(sb, "meta"))
            with open(os.path.join(sb, "meta", "unsafe.torrent"), "wb") as fd:
                fd.write(unsafe)
            with open(os.path.join(sb, "meta", "garbage.torrent"), "wb") as fd:
                fd.write(b"this is not bencoding at all")
            # a FOLDER of metafiles (rebuild -m <folder>): one refused metafile next to a good one
            os.makedirs(os.path.join(sb, "metabad"))
            with open(os.path.join(sb, "metabad", "a-unsafe.torrent"), "wb") as fd:
                fd.write(unsafe)
            with open(os.path.join(sb, "metabad", "z-good.torrent"), "wb") as fd:
                fd.write(rt.build("p", files=[(tuple(f[0].split("/")), content(f[2], f[1])) for f in sorted(case["files"])],
                                  pl=16384, version=1))
            # v2 / hybrid metafiles of a nested tree called like the payload directory whose deepest leaf lacks its
            # length / its root: the operation fails half-way through a directory walk
            from .recheck_family import _malform
            nested = [(("sub", "deep", "x.bin"), b"x" * 20000), (("sub", "y"), b"y" * 7), (("top",), b"t" * 33000)]
            for nm, how, ver in (("nolength", "no-length", 2), ("noroot", "no-root", 3)):
                with open(os.path.join(sb, "meta", nm + ".torrent"), "wb") as fd:
                    fd.write(_malform(rt.build("p", files=nested, pl=16384, version=ver), how))
        counters, viol = {}, []
        server = _Server()
        creates_served = 0
        seen_create = seen_mut_after_create = False
        steps = 0
        kinds = []
        try:
            for n, op in enumerate(case["history"]):
                kinds.append(op["op"] + (":" + op["route"][-1] if op["op"] == "create" else ""))
                if op["op"] in ("add", "delete", "grow", "shrink", "rewrite", "dangle", "undangle"):
                    if op["op"] == "dangle":
                        counters["failed_walk_then_repaired_histories"] = 1
                    _apply_fs(op, SA)
                    _apply_fs(op, SB)
                    if seen_create:
                        seen_mut_after_create = True
                    continue
                ra = server.call(op, SA)
                rb_ = _fresh(op, SB)
                if "harness_error" in ra or "harness_error" in rb_:
                    return {"inconclusive": "executor error", "traceback": str(ra.get("harness_error") or rb_.get("harness_error"))[-1500:]}
                steps += 1
                counters[op["op"] + "_steps"] = counters.get(op["op"] + "_steps", 0) + 1
                if op.get("block_dest") or op.get("meta", "").endswith(("unsafe.torrent", "garbage.torrent", "nolength.torrent", "noroot.torrent", "metabad")):
                    counters["failing_operation_steps"] = counters.get("failing_operation_steps", 0) + 1
                if op["op"] == "create" and op.get("out") is None:
                    counters["create_at_default_location_steps"] = counters.get("create_at_default_location_steps", 0) + 1
                if op["op"] == "create" and op["route"] == "config":
                    counters["config_file_create_steps"] = counters.get("config_file_create_steps", 0) + 1
                if op["op"] == "create":
                    creates_served += 1
                    if seen_mut_after_create:
                        counters["create_mutate_create"] = 1
                    seen_create = True
                if ra != rb_:
                    desc = {k: (ra.get(k) != rb_.get(k)) for k in set(ra) | set(rb_)}
                    detail = {"step": n, "op": op, "differs": desc, "long_lived_exc": ra.get("exc"),
                              "fresh_exc": rb_.get("exc"), "history_before": kinds[:-1]}
                    if "ret" in ra or "ret" in rb_:
                        detail["long_lived_ret"] = ra.get("ret")
                        detail["fresh_ret"] = rb_.get("ret")
                    if "raw" in ra and "raw" in rb_:
                        try:
                            fa = [p for p, _, _ in __import__("vf.ref.torrent", fromlist=["x"]).v1_entries(rb.decode(ra["raw"])[0].get(b"info"))] \
                                if b"5:files" in ra["raw"] else None
                            fb = [p for p, _, _ in __import__("vf.ref.torrent", fromlist=["x"]).v1_entries(rb.decode(rb_["raw"])[0].get(b"info"))] \
                                if b"5:files" in rb_["raw"] else None
                            detail["files_long_lived"], detail["files_fresh"] = fa, fb
                        except Exception:
                            pass
                    viol.append(oracles.V("long-lived-differs-from-fresh", **detail))
                    break
        finally:
            server.close()
        counters["steps_compared"] = steps
        if creates_served >= 2:
            counters["repeat_creates_served_by_long_lived"] = 1
        return {"violations": viol, "counters": counters, "nontrivial": bool(counters.get("create_mutate_create")),
                "evaluations": steps, "sig": kinds,
                "sample": {"files": [[f[0], f[1]] for f in case["files"]], "history": case["history"][:8],
                           "steps_compared": steps, "violations": len(viol)}}

    @staticmethod
    def classify(case, v):
        return None
