"""C11 (magnet), C12 (piece length), C20 (flag / config / keyword equivalence)."""
import hashlib
import io
import os
import sys
from urllib.parse import unquote_to_bytes

from .. import drive, gen, oracles
from ..harness import content, materialise
from ..monitors import env
from ..ref import bencode as rb
from ..ref import torrent as rt
from .create_family import mask_creation_date
from .meta_family import apply_edit, gen_request

HOSTILE_NAMES = ["a&b", "k=v", "100%", "a+b", "c#d", "x y", "é ü", "日本 語", "a&b=c%+#d é", "%41", "q?x", "a;b",
                 # not NFC-stable: decomposed sequences and compatibility singletons (the name is bytes, not a word)
                 "e\u0301 u\u0308 decomposed", "\u212bngstr\u00f6m \u2126", "\ufb01le \u2460",
                 "plain", "tr=x&ws=y", "+", "%", "&", "name.with.dots", "Ünï=©&®"]
URLS = gen.URL_POOL + ["http://sp ace/x", "http://h/?a=1&b=2#f", "http://ü.example/é+è", "http://h/%25", "http://h/a=b=c"]


# ---------------------------------------------------------------------- C11
def parse_magnet(uri):
    if not uri.startswith("magnet:?"):
        return None
    out = []
    for part in uri[len("magnet:?"):].split("&"):
        if "=" in part:
            k, v = part.split("=", 1)
        else:
            k, v = part, ""
        out.append((k, unquote_to_bytes(v.replace("+", " "))))
    return out


class C11:
    id = "C11"
    quick, thorough = 1800, 30000
    timeout = 120
    rule = ("case = metafile (created by the tool, created then edited, or written by the reference encoder with "
            "extra keys, multi-tier announce-list, url-list as list or bare string) x name / URL alphabet incl. "
            "space & = % + # and non-ASCII x version request (0; 1/2/3 for hybrids) x route (commands.magnet, CLI "
            "magnet|m); returned and printed URI parsed with urllib and compared with SHA-1 / SHA-256 of the raw "
            "info span, name bytes, flattened tracker list, web-seed list; non-trivial when a reserved or "
            "non-ASCII character, > 1 tier, or an explicit version request on a hybrid is present; distinct by "
            "(origin, version x request, character classes, #tiers, url-list form, route)")
    required = ("uris_parsed", "btih_compared", "btmh_compared", "tr_compared", "ws_compared", "printed_compared",
                "origin_tool", "origin_edited", "origin_ref", "announce_not_first_in_list", "create_magnet_route", "all_files_empty_cases")
    assumptions = ("reference span decoder locates the exact info bytes", "urllib.parse.unquote_to_bytes decodes as clients do")

    @staticmethod
    def gen(rng, tier, i):
        version = rng.choice([1, 2, 3])
        origin = rng.choice(["tool", "edited", "ref", "ref"])
        name = rng.choice(HOSTILE_NAMES) if rng.random() < 0.7 else rng.choice(["T", "payload"])
        single = rng.random() < 0.4
        nfiles = 1 if single else rng.randint(1, 3)
        all_empty = rng.random() < 0.06            # degenerate but valid: the payload consists of empty files only
        files = [[f"f{k}" if not single else name, 0 if all_empty else rng.choice([0, 5, 100, 16385, 20000, 40000]),
                  rng.randrange(1 << 30)] for k in range(nfiles)]
        tiers = None
        ann = None
        c = rng.random()
        if c < 0.75:
            urls = rng.sample(URLS, rng.randint(1, 4))
            if origin == "ref" and rng.random() < 0.6:
                nt = rng.randint(1, 3)
                tiers = [[] for _ in range(nt)]
                for k, u in enumerate(urls):
                    tiers[k % nt].append(u)
                tiers = [t for t in tiers if t]
                if len(tiers) > 1 and rng.random() < 0.3:
                    tiers[-1].append(tiers[0][-1])      # one backup tracker is the fall-back of two tiers
                ann = tiers[0][0]
                if rng.random() < 0.4:
                    ann = rng.choice([u for t in tiers for u in t])     # primary tracker listed, but not first
            else:
                tiers = [urls]
                ann = urls[0]
            if origin == "ref" and rng.random() < 0.15:
                tiers = None            # announce only
        ws = None
        if rng.random() < 0.55:
            ws = rng.sample(URLS, rng.randint(1, 3))
        ws_form = "list"
        if origin == "ref" and ws and rng.random() < 0.3:
            ws_form = "string"
            ws = ws[:1]
        req = 0
        if version == 3:
            req = rng.choice([0, 1, 2, 3])
        elif rng.random() < 0.3:
            req = version
        case = {"version": version, "origin": origin, "name": name, "single": single, "files": files,
                "announce": ann, "tiers": tiers, "ws": ws, "ws_form": ws_form, "request": req,
                "via": rng.choice(["lib", "cli", "cli-m"]), "extra": rng.random() < 0.5,
                "create_magnet": rng.random() < 0.5,
                "route": rng.choice({1: ["TorrentFile", "cli1"], 2: ["TorrentFileV2", "Assembler2", "cli2"],
                                     3: ["TorrentFileHybrid", "Assembler3", "cli3"]}[version])}
        if origin == "edited":
            case["edit"] = {"route": rng.choice(["lib", "cli"]), "req": None, "omit_unnamed": False, "flags_first": False}
            case["edit"]["req"] = gen_request(rng, case["edit"]["route"], allow_clear=False)
        return case

    @staticmethod
    def run(case, scratch):
        commands = drive.mod("commands")
        reach = env.Reach()
        reach.start({"commands.magnet": env.Tolerant(commands).magnet, "commands.get_magnet": env.Tolerant(commands).get_magnet})
        counters, viol = {}, []
        pl = 16384
        mpath = os.path.join(scratch, "meta", "m.torrent")
        os.makedirs(os.path.dirname(mpath))
        name = case["name"]
        if case["origin"] in ("tool", "edited"):
            base = os.path.join(scratch, "in")
            root = os.path.join(base, name)
            if case["single"]:
                materialise(base, [[name, case["files"][0][1], case["files"][0][2]]])
            else:
                materialise(root, case["files"])
            cbuf = io.StringIO()
            saved_out = sys.stdout
            sys.stdout = cbuf
            try:
                oc = drive.create(case["route"], root, mpath, piece_length=pl, progress=0,
                                  announce=case["tiers"][0] if case["tiers"] else None, url_list=case["ws"],
                                  magnet=case.get("create_magnet", False))
            finally:
                sys.stdout = saved_out
            if not oc.ok:
                return {"inconclusive": "create failed " + oc.excname(), "traceback": oc.tb}
            create_printed = [ln for ln in cbuf.getvalue().splitlines() if ln.startswith("magnet:?")]
            if case["origin"] == "edited":
                eo = apply_edit(mpath, case["edit"])
                if not eo.ok:
                    return {"inconclusive": "edit failed " + eo.excname(), "traceback": eo.tb}
            counters["origin_" + case["origin"]] = 1
        else:
            kw = {}
            if case["extra"]:
                kw["extra_info"] = {"x-custom": {"b": 2, "a": [1, 2]}, "zz": "end", "0first": 1, "source": "S",
                                    "private": 1}
                kw["extra_top"] = {"created by": "ref", "creation date": 1, "nodes": [["h", 1]], "zzz": {"y": 1},
                                   "encoding": "UTF-8", "comment.utf-8": "c", "publisher": "p", "httpseeds": ["http://h/s"],
                                   # the byte sequence '4:info' ahead of the real info dictionary: as a key of another
                                   # dictionary, and as the start of a 14-byte string
                                   "generator": {"info": "mkmeta 2.1", "version": 2}, "comment": "info: see docs"}
                # keys other clients add next to the real ones: none of them replaces 'name', the trackers or the seeds
                kw["extra_info"].update({"name.utf-8": "ANOTHER name.utf-8 " + name, "publisher-url": "http://p/",
                                         "md5sum": "0" * 32, "display name": "dn", "ws": "http://not/a/seed"})
                counters["foreign_keys_next_to_name_cases"] = 1
            if case["announce"]:
                kw["announce"] = case["announce"]
            if case["tiers"]:
                kw["announce_list"] = case["tiers"]
            if case["ws"]:
                kw["url_list"] = case["ws"][0] if case["ws_form"] == "string" else case["ws"]
            if case["single"]:
                raw = rt.build(name, single=(name, content(case["files"][0][2], case["files"][0][1])), pl=pl,
                               version=case["version"], **kw)
            else:
                files = [((f[0],), content(f[2], f[1])) for f in case["files"]]
                raw = rt.build(name, files=files, pl=pl, version=case["version"], **kw)
            with open(mpath, "wb") as fd:
                fd.write(raw)
            counters["origin_ref"] = 1
        with open(mpath, "rb") as fd:
            raw = fd.read()
        top, _ = rb.decode(raw)
        info = top.get(b"info")
        span = raw[info.start:info.end]
        ver = rt.meta_version(info)
        req = case["request"]
        exp_xt = set()
        if ver == 1 or (ver == 3 and req in (0, 1, 3)):
            exp_xt.add(b"urn:btih:" + hashlib.sha1(span).hexdigest().encode())
        if ver == 2 or (ver == 3 and req in (0, 2, 3)):
            exp_xt.add(b"urn:btmh:1220" + hashlib.sha256(span).hexdigest().encode())
        exp_dn = info.get(b"name").value
        al = top.get(b"announce-list")
        if al is not None:
            exp_tr = [u.value for t in al.value for u in t.value]
        elif top.get(b"announce") is not None:
            exp_tr = [top.get(b"announce").value]
        else:
            exp_tr = []
        ul = top.get(b"url-list")
        if ul is None:
            exp_ws = []
        elif ul.kind == "str":
            exp_ws = [ul.value]
        else:
            exp_ws = [u.value for u in ul.value]
        # ---- run
        buf = io.StringIO()
        saved = sys.stdout
        sys.stdout = buf
        try:
            if case["via"] == "lib":
                try:
                    oc = drive.Outcome(ret=commands.magnet(mpath, version=req))
                except BaseException as exc:  # noqa
                    import traceback
                    oc = drive.Outcome(exc=exc, tb=traceback.format_exc())
            else:
                argv = ["magnet" if case["via"] == "cli" else "m", mpath]
                if req:
                    argv += ["--meta-version", str(req)]
                oc = drive.cli_execute(argv)
                sys.stdout = buf
        finally:
            sys.stdout = saved
        if not oc.ok:
            viol.append(oracles.V("magnet-raised", exc=oc.excname(), tb=(oc.tb or "")[-1200:]))
        else:
            printed = [ln for ln in buf.getvalue().splitlines() if ln.startswith("magnet:?")]
            uris = [("returned", oc.ret)]
            if printed:
                uris.append(("printed", printed[-1]))
                counters["printed_compared"] = 1
            elif case["via"] != "lib":
                # a command-line invocation that does not print the URI does not deliver it at all
                viol.append(oracles.V("uri-not-printed", stdout=buf.getvalue()[:200]))
            if case.get("create_magnet") and case["origin"] == "tool" and case["route"].startswith("cli"):
                # the URI printed by `create --magnet` is the automatic one for the metafile just written
                if create_printed:
                    counters["create_magnet_route"] = 1
                    if req == 0:
                        uris.append(("printed-by-create--magnet", create_printed[-1]))
                    else:
                        p0 = parse_magnet(create_printed[-1]) or []
                        want0 = set()
                        if ver in (1, 3):
                            want0.add(b"urn:btih:" + hashlib.sha1(span).hexdigest().encode())
                        if ver in (2, 3):
                            want0.add(b"urn:btmh:1220" + hashlib.sha256(span).hexdigest().encode())
                        got0 = [v for k, v in p0 if k == "xt"]
                        if set(got0) != want0 or len(got0) != len(want0):
                            viol.append(oracles.V("xt-mismatch", which="printed-by-create--magnet",
                                                  got=[x.decode("latin-1") for x in got0],
                                                  want=sorted(x.decode() for x in want0), version=ver, request=0))
                else:
                    viol.append(oracles.V("uri-not-printed", which="create --magnet"))     # --magnet exists to print it
            for which, uri in uris:
                params = parse_magnet(uri) if isinstance(uri, str) else None
                if params is None:
                    viol.append(oracles.V("not-a-magnet-uri", which=which, value=repr(uri)[:200]))
                    continue
                counters["uris_parsed"] = counters.get("uris_parsed", 0) + 1
                xt = [v for k, v in params if k == "xt"]
                if set(xt) != exp_xt or len(xt) != len(exp_xt):
                    viol.append(oracles.V("xt-mismatch", which=which, got=[x.decode("latin-1") for x in xt],
                                          want=sorted(x.decode() for x in exp_xt), version=ver, request=req))
                if any(x.startswith(b"urn:btih:") for x in exp_xt):
                    counters["btih_compared"] = counters.get("btih_compared", 0) + 1
                if any(x.startswith(b"urn:btmh:") for x in exp_xt):
                    counters["btmh_compared"] = counters.get("btmh_compared", 0) + 1
                dn = [v for k, v in params if k == "dn"]
                if dn != [exp_dn]:
                    viol.append(oracles.V("dn-mismatch", which=which, got=dn, want=exp_dn))
                tr = [v for k, v in params if k == "tr"]
                if tr != exp_tr:
                    viol.append(oracles.V("tr-mismatch", which=which, got=tr, want=exp_tr))
                counters["tr_compared"] = counters.get("tr_compared", 0) + (1 if exp_tr else 0)
                ws = [v for k, v in params if k == "ws"]
                if ws != exp_ws:
                    viol.append(oracles.V("ws-mismatch", which=which, got=ws[:6], want=exp_ws,
                                          url_list_form=case["ws_form"]))
                counters["ws_compared"] = counters.get("ws_compared", 0) + (1 if exp_ws else 0)
        alltext = exp_dn + b"".join(exp_tr) + b"".join(exp_ws)
        classes = sorted({c for c in "&=%+# " if c.encode() in alltext} | ({"non-ascii"} if not alltext.isascii() else set()))
        ntiers = len(case["tiers"]) if case["tiers"] else 0
        if all(f[1] == 0 for f in case["files"]):
            counters["all_files_empty_cases"] = 1
        if case["tiers"] and case["announce"] and case["announce"] != case["tiers"][0][0]:
            counters["announce_not_first_in_list"] = 1
        nontrivial = bool(classes) or ntiers > 1 or (ver == 3 and req != 0)
        return {"violations": viol, "counters": counters, "reach": reach.collect(), "nontrivial": nontrivial,
                "sig": [case["origin"], ver, req, classes, ntiers, case["ws_form"], case["via"]],
                "sample": {"origin": case["origin"], "version": ver, "request": req, "name": name,
                           "trackers": [t.decode("utf-8", "replace") for t in exp_tr][:4],
                           "web_seeds": [t.decode("utf-8", "replace") for t in exp_ws][:3],
                           "uri": (oc.ret if oc.ok and isinstance(oc.ret, str) else None),
                           "expected_xt": sorted(x.decode() for x in exp_xt), "violations": len(viol)}}

    @staticmethod
    def classify(case, v):
        return None


# ---------------------------------------------------------------------- C12
def _is_pow2(n):
    return n > 0 and n & (n - 1) == 0


def judge_normalize(arg, outcome):
    """arg: int or str.  outcome: ("ret", value) | ("exc", typename).  Returns violation kind or None."""
    kind, val = outcome
    if isinstance(arg, str):
        canonical = arg.isascii() and arg.isdigit() and (arg == "0" or not arg.startswith("0"))
        try:
            n = int(arg)
            parse_ok = True
        except ValueError:
            n, parse_ok = None, False
    else:
        n, parse_ok, canonical = arg, True, True
    if kind == "exc":
        if val != "PieceLengthValueError":
            return "wrong-exception-type"
        if canonical and parse_ok and ((n >= 16384 and _is_pow2(n)) or 14 <= n <= 25):
            return "valid-value-rejected"
        return None
    # accepted
    if not isinstance(val, int) or isinstance(val, bool) or not _is_pow2(val) or val < 16384:
        return "accepted-result-not-pow2-ge-16KiB"
    if not parse_ok:
        return "non-numeric-accepted"
    if n >= 16384 and _is_pow2(n):
        return None if val == n else "result-differs-from-value"
    if 14 <= n <= 29:
        return None if val == 2 ** n else "exponent-misread"
    return "invalid-value-accepted"


def _value_class(arg):
    if isinstance(arg, str):
        syn = ("canon" if arg.isascii() and arg.isdigit() and not (len(arg) > 1 and arg[0] == "0") else
               "lead0" if arg.isascii() and arg.isdigit() else "signed" if arg[:1] in "+-" and arg[1:].isdigit() else
               "space" if arg.strip() != arg else "unicode-num" if arg.isnumeric() else
               "float" if arg.replace(".", "", 1).isdigit() else "empty" if arg == "" else "other")
        try:
            n = int(arg)
        except ValueError:
            return ["str", syn, "-", "-"]
        return ["str", syn] + _value_class(n)[1:]
    n = arg
    sign = "neg" if n < 0 else "zero" if n == 0 else "pos"
    a = abs(n)
    band = ("0-13" if a <= 13 else "14-25" if a <= 25 else "26-29" if a <= 29 else "30-16383" if a < 16384 else
            "2^14-2^26" if a <= 2 ** 26 else "2^26-2^64" if a <= 2 ** 64 else "huge")
    if a > 0:
        lo = 1 << (a.bit_length() - 1)
        d = min(a - lo, 2 * lo - a)
        dist = "0" if d == 0 else "1" if d == 1 else "2-3" if d <= 3 else "far"
    else:
        dist = "-"
    return ["int", sign, band, dist]


def _contracts_via_metafile(log, utils, orig_n, orig_g):
    import tempfile
    torrent = drive.mod("torrent")
    d = tempfile.mkdtemp(prefix="c12-", dir=os.getcwd())
    small = os.path.join(d, "small.bin")
    with open(small, "wb") as fd:
        fd.write(b"x" * 100)
    sparse = os.path.join(d, "sparse.bin")
    with open(sparse, "wb"):
        pass

    def normalize_piece_length(piece_length):
        try:
            r = orig_n(piece_length) if orig_n is not None else torrent.MetaFile(path=small, piece_length=piece_length).piece_length
        except BaseException as exc:  # noqa
            log.append(("normalize", piece_length, ("exc", type(exc).__name__)))
            raise
        log.append(("normalize", piece_length, ("ret", r)))
        return r

    def get_piece_length(size):
        if orig_g is not None:
            r = orig_g(size)
        else:
            os.truncate(sparse, size)
            r = torrent.MetaFile(path=sparse).piece_length
        log.append(("auto", size, ("ret", r)))
        return r

    # installed under the documented names so that the batches below can call them; the creation routes of a
    # refactored tree do not call through these attributes, their results are judged from the metafiles they write
    utils.normalize_piece_length = normalize_piece_length
    utils.get_piece_length = get_piece_length
    return env.MISSING if orig_n is None else orig_n, env.MISSING if orig_g is None else orig_g


def _install_contracts(log):
    """Runtime contracts on the two documented pure functions, installed on the
    module attribute the creation path calls through."""
    utils = drive.mod("utils")
    orig_n, orig_g = getattr(utils, "normalize_piece_length", None), getattr(utils, "get_piece_length", None)
    if orig_n is None or orig_g is None:
        # one of the two helpers no longer exists under its name (a refactoring): observe the same decisions through
        # the public base class of the creators instead - MetaFile(path, piece_length) validates a given value and
        # picks the automatic one from the payload size (a sparse file of that size) without hashing anything
        return _contracts_via_metafile(log, utils, orig_n, orig_g)

    def normalize_piece_length(piece_length):
        try:
            r = orig_n(piece_length)
        except BaseException as exc:  # noqa
            log.append(("normalize", piece_length, ("exc", type(exc).__name__)))
            raise
        log.append(("normalize", piece_length, ("ret", r)))
        return r

    def get_piece_length(size):
        r = orig_g(size)
        log.append(("auto", size, ("ret", r)))
        return r

    utils.normalize_piece_length = normalize_piece_length
    utils.get_piece_length = get_piece_length
    return orig_n, orig_g


class C12:
    id = "C12"
    quick, thorough = 0, 0      # batches are enumerated, not sampled (see gen_all)
    timeout = 300
    rule = ("batches: (a) every integer in [-64, 2^17+64] (exhaustive); (b) 2^k+d for k<=80 (thorough: <=1100), "
            "|d|<=3, 3*2^k, random 64-bit and 1100-bit integers; (c) strings: decimals of (a)/(b) samples, leading "
            "zeros, signs, blanks, floats, hex, empty, words, Unicode digits and numerics; (d) the same values "
            "through TorrentFile/TorrentAssembler, CLI --piece-length and the configuration file on a tiny payload "
            "(accepted -> recorded value checked; rejected -> PieceLengthValueError and no metafile); (e) automatic "
            "choice for sorted sizes in [0, 2^50] incl. every threshold +-1: power of two in [2^14, 2^24], "
            "non-decreasing.  A contract wrapper on utils.normalize_piece_length / get_piece_length judges every "
            "call, including those made by the creation routes.  distinct = value class (type, sign, magnitude "
            "band, distance to nearest power of two, string syntax class) x route")
    required = ("contract_evaluations", "integers_enumerated", "strings_enumerated", "route_accepted",
                "route_rejected", "auto_sizes_checked", "contract_evals_from_creation_routes", "auto_history_creations")
    assumptions = ("exponents 26..29 may be rejected or read as 2^n", "floats / bools are outside the quantifier",
                   "creation routes are exercised only for values <= 2^26 (a 2^40 piece buffer is a resource, "
                   "not a semantic, question)")

    @staticmethod
    def gen_all(rng, tier):
        cases = []
        lo, hi = -64, 2 ** 17 + 64
        step = 4096
        for a in range(lo, hi + 1, step):
            cases.append({"kind": "range", "lo": a, "hi": min(hi, a + step - 1)})
        kmax = 80 if tier == "quick" else 1100
        vals = []
        for k in range(0, kmax + 1):
            for d in (-3, -2, -1, 0, 1, 2, 3):
                vals.append((1 << k) + d)
            vals.append(3 << k)
            vals.append(-(1 << k))              # the mirror images: one bit set, wrong sign
            vals.append(-(1 << k) + 1)
        for _ in range(400 if tier == "quick" else 4000):
            vals.append(rng.getrandbits(64))
            vals.append(-rng.getrandbits(40))
            vals.append(rng.getrandbits(1100))
            vals.append(1 << rng.randint(14, 60))
        for i in range(0, len(vals), 500):
            cases.append({"kind": "ints", "values": [str(v) for v in vals[i:i + 500]]})
        strs = ["", " ", "abc", "16k", "1e5", "16384.0", "14.0", "0x4000", "0b1", "١٤", "１６３８４", "²", "½", "⑭",
                "+14", "-14", "+16384", " 14", "14 ", "\t16384", "16_384", "1 4", "014", "0016384", "00", "0",
                "14\n", "१६३८४", "Ⅷ", "٣", "14e", "e14", "--14", "1,024", "NaN", "inf", "True", "None", "2**14",
                "16384L", "一", "〇", "𝟏𝟒", "１４"]
        strs += [str(v) for v in list(range(-3, 40)) + [16383, 16384, 16385, 16395, 32768, 65535, 65536, 65537,
                                                         2 ** 20, 2 ** 24, 2 ** 25, 2 ** 26, 2 ** 30, 2 ** 40 + 1,
                                                         3 << 14, 24576, 2 ** 64, 2 ** 1025, 100, 1000, 8192, 4096]]
        for _ in range(300 if tier == "quick" else 3000):
            strs.append(str(rng.choice([rng.randint(0, 70), 1 << rng.randint(0, 70), rng.getrandbits(30)])))
            strs.append("0" * rng.randint(1, 3) + str(1 << rng.randint(10, 30)))
        for i in range(0, len(strs), 400):
            cases.append({"kind": "strs", "values": strs[i:i + 400]})
        # creation routes
        rvals = [13, 14, 15, 20, 25, 26, 29, 30, 31, 32, 64, 100, 1024, 8192, 16383, 16384, 16385, 16395, 24576,
                 32768, 49152, 65536, 65537, 131072, 2 ** 20, 2 ** 20 + 1, 2 ** 24, 2 ** 26, 1, 2, 0, -14, -16384,
                 -32768, -(2 ** 20), -(2 ** 40)] + list(range(3, 14))     # small numbers that a second expansion could lift
        rvals += [rng.randint(1, 2 ** 20) for _ in range(20 if tier == "quick" else 200)]
        rvals += [(1 << rng.randint(5, 26)) + rng.choice([0, 0, 1, -1]) for _ in range(20 if tier == "quick" else 200)]
        rstrs = ["abc", "", "²", "14.0", " 15", "+16", "016", "١٤", "1e5", "04", "4", "004", "013",
                 # words a configuration parser gives a meaning of their own
                 "true", "false", "True", "FALSE", "yes", "no", "on", "off", "none", "None", "null", "auto", "default"]
        for v in rvals:
            for route in ("TorrentFile", "Assembler2", "Assembler3", "cli1", "cli2", "config"):
                if rng.random() < (0.45 if tier == "quick" else 0.8):
                    cases.append({"kind": "route", "route": route, "value": v,
                                  "pl_spelling": rng.choice([None, "equals", "abbrev"]) if route.startswith("cli") else None,
                                  "as_str": route.startswith("cli") or route == "config" or rng.random() < 0.3})
        for s in rstrs:
            for route in ("TorrentFile", "cli1", "config"):
                cases.append({"kind": "route", "route": route, "value": s, "as_str": True,
                              "pl_spelling": rng.choice([None, "equals"]) if route.startswith("cli") else None})
        for b in range(4 if tier == "quick" else 24):
            cases.append({"kind": "auto", "seed": rng.randrange(1 << 30), "n": 25000})
        for route in ("TorrentFile", "Assembler2", "cli1", "cli2", "TorrentFileV2", "config"):
            for rep in range(1 if tier == "quick" else 4):
                cases.append({"kind": "auto-history", "route": route, "seed": rng.randrange(1 << 30)})
        return cases

    @staticmethod
    def run(case, scratch):
        utils = drive.mod("utils")
        log = []
        orig_n, orig_g = _install_contracts(log)
        counters, viol, sigs = {}, [], set()
        reach = env.Reach()
        reach.start({"utils.normalize_piece_length": orig_n, "utils.get_piece_length": orig_g})

        def judge_log(tag):
            for fn, arg, outcome in log:
                counters["contract_evaluations"] = counters.get("contract_evaluations", 0) + 1
                if tag == "route":
                    counters["contract_evals_from_creation_routes"] = \
                        counters.get("contract_evals_from_creation_routes", 0) + 1
                if fn == "normalize":
                    if isinstance(arg, (int, str)) and not isinstance(arg, bool):
                        k = judge_normalize(arg, outcome)
                        if k:
                            viol.append(oracles.V(k, arg=repr(arg)[:80], outcome=[outcome[0], repr(outcome[1])[:80]],
                                                  via=tag))
                else:
                    r = outcome[1]
                    if not (isinstance(r, int) and _is_pow2(r) and 2 ** 14 <= r <= 2 ** 24):
                        viol.append(oracles.V("auto-choice-out-of-range", size=arg, chosen=r))
            log.clear()

        def call(arg):
            try:
                utils.normalize_piece_length(arg)
            except BaseException:  # noqa
                pass

        sample = {"kind": case["kind"]}
        if case["kind"] == "range":
            for v in range(case["lo"], case["hi"] + 1):
                call(v)
                sigs.add(tuple(_value_class(v)))
            counters["integers_enumerated"] = case["hi"] - case["lo"] + 1
            sample.update(lo=case["lo"], hi=case["hi"])
            judge_log("direct")
        elif case["kind"] == "ints":
            for s in case["values"]:
                v = int(s)
                call(v)
                sigs.add(tuple(_value_class(v)))
            counters["integers_enumerated"] = len(case["values"])
            sample.update(first=case["values"][:5])
            judge_log("direct")
        elif case["kind"] == "strs":
            for s in case["values"]:
                call(s)
                sigs.add(tuple(_value_class(s)))
            counters["strings_enumerated"] = len(case["values"])
            sample.update(first=case["values"][:8])
            judge_log("direct")
        elif case["kind"] == "auto":
            import random
            r = random.Random(case["seed"])
            sizes = set()
            for e in range(14, 25):
                t = 1000 * 2 ** e
                sizes.update([t - 1, t, t + 1])
            sizes.update([0, 1, 2 ** 50, 2 ** 50 - 1])
            while len(sizes) < case["n"]:
                sizes.add(r.choice([r.randint(0, 2 ** 50), r.randint(0, 2 ** 36), r.randint(0, 2 ** 26)]))
            prev = None
            for s in sorted(sizes):
                got = utils.get_piece_length(s)
                if prev is not None and got < prev[1]:
                    viol.append(oracles.V("auto-choice-decreases", size=s, chosen=got, prev_size=prev[0], prev=prev[1]))
                prev = (s, got)
            counters["auto_sizes_checked"] = len(sizes)
            for e in range(14, 25):
                sigs.add(("auto", e))
            sample.update(sizes=len(sizes))
            judge_log("auto")
        elif case["kind"] == "auto-history":
            # several automatic choices in ONE process while payloads shrink / grow across a threshold: the
            # recorded piece lengths must still be a non-decreasing function of the payload size
            import random
            r = random.Random(case["seed"])
            T = 1000 * 16384
            route = case["route"]
            obs = []

            def make(path_name, size, via_link=False):
                root = os.path.join(scratch, "hist", path_name)
                if via_link:
                    # the bytes sit behind a directory symlink inside the payload (followed by the file listing)
                    store = os.path.join(scratch, "hist", path_name + "-store")
                    os.makedirs(store, exist_ok=True)
                    os.makedirs(root, exist_ok=True)
                    if not os.path.lexists(os.path.join(root, "linked")):
                        os.symlink(store, os.path.join(root, "linked"))
                    p = os.path.join(store, "payload.bin")
                else:
                    p = os.path.join(root, "payload.bin")
                os.makedirs(os.path.dirname(p), exist_ok=True)
                with open(p, "ab") as fd:
                    fd.truncate(size)
                out = os.path.join(scratch, "hist", f"o{len(obs)}.torrent")
                if route == "config":
                    ini = os.path.join(scratch, "hist", "c.ini")
                    with open(ini, "w") as fd:
                        fd.write("[config]\ncomment = auto\n")
                    oc = drive.cli_execute(["create", "--config", "--config-path", ini, "-o", out, "--prog", "0", root])
                    if oc.ok:
                        with open(out, "rb") as fd:
                            oc.raw = fd.read()
                else:
                    oc = drive.create(route, root, out, piece_length=None, progress=0)
                if not oc.ok and via_link:
                    counters["payload_with_link_refused"] = 1        # declining to follow a link chooses no piece length
                    return
                if not oc.ok:
                    viol.append(oracles.V("auto-create-raised", route=route, size=size, exc=oc.excname()))
                    return
                info = oracles.decode_meta(oc.raw)[1]
                rec = info.get(b"piece length").value
                # the payload size is what the metafile itself lists
                if b"files" in info:
                    listed = sum(l for _, l, _ in rt.v1_entries(info))
                elif b"file tree" in info:
                    listed = sum(leaf.get(b"length").value for _, leaf in rt.v2_leaves(info.get(b"file tree")))
                else:
                    listed = info.get(b"length").value
                obs.append((listed, rec, path_name))
            big = T + r.choice([1, 16384, 600000])
            make("A", big)                       # 2^15 expected
            make("A", r.choice([1, 1 << 20, T]))  # same path, shrunk below the threshold
            make("B", T - r.choice([0, 1, 4096]))   # other path just below / at the threshold
            make("A", 2 * T + 1)                 # grown across the next threshold
            make("C", r.choice([100, 3 << 20]))
            make("B", 2 * T + 5)
            make("L", 2 * T + r.choice([7, 70000]), via_link=True)
            judge_log("route")
            for size, rec, pn in obs:
                if not (_is_pow2(rec) and 2 ** 14 <= rec <= 2 ** 24):
                    viol.append(oracles.V("auto-choice-out-of-range", size=size, chosen=rec, route=route))
            srt = sorted(obs)
            for (s1, p1, n1), (s2, p2, n2) in zip(srt, srt[1:]):
                if p2 < p1:
                    viol.append(oracles.V("auto-choice-decreases-within-process", route=route, smaller=[s1, p1, n1],
                                          larger=[s2, p2, n2], order_of_creation=[[o[2], o[0], o[1]] for o in obs]))
            counters["auto_history_creations"] = len(obs)
            sigs.add(("auto-history", route))
            sample.update(route=route, observed=[[o[2], o[0], o[1]] for o in obs])
        else:
            v = case["value"]
            arg = str(v) if case["as_str"] else v
            base = os.path.join(scratch, "in")
            root = os.path.join(base, "tiny")
            materialise(root, [["a", 20000, 1], ["b", 5, 2]])
            out = os.path.join(scratch, "out", "m.torrent")
            os.makedirs(os.path.dirname(out))
            route = case["route"]
            if route == "config":
                ini = os.path.join(scratch, "cfg.ini")
                with open(ini, "w", encoding="utf-8") as fd:
                    fd.write(f"[config]\npiece-length = {arg}\n")
                oc = drive.cli_execute(["create", "--config", "--config-path", ini, "-o", out, "--prog", "0", root])
                if oc.ok:
                    with open(out, "rb") as fd:
                        oc.raw = fd.read()
            else:
                oc = drive.create(route, root, out, piece_length=arg, progress=0, pl_spelling=case.get("pl_spelling"))
                if case.get("pl_spelling") and route.startswith("cli"):
                    counters["cli_piece_length_spelled_" + case["pl_spelling"]] = 1
            judge_log("route")
            given = arg not in (0, None, "")          # library: falsy means "not given"
            if isinstance(arg, str) and route == "config" and arg.strip() == "":
                given = False
            n = None
            try:
                n = int(arg)
            except (ValueError, TypeError):
                pass
            valid = n is not None and ((n >= 16384 and _is_pow2(n)) or 14 <= n <= 25)
            maybe = n is not None and 26 <= n <= 29
            if route == "config" and isinstance(arg, str) and arg != arg.strip():
                given = True
                n_cfg = arg.strip()
                try:
                    n = int(n_cfg)
                    valid = (n >= 16384 and _is_pow2(n)) or 14 <= n <= 25
                    maybe = 26 <= n <= 29
                except ValueError:
                    pass
            if given:
                if oc.ok:
                    counters["route_accepted"] = 1
                    try:
                        rec = oracles.decode_meta(oc.raw)[1].get(b"piece length").value
                    except Exception:
                        rec = None
                    want = None
                    if n is not None:
                        want = n if n >= 16384 else 2 ** n if 14 <= n <= 29 else None
                    if not (valid or maybe):
                        viol.append(oracles.V("route-accepted-invalid", route=route, arg=repr(arg), recorded=rec))
                    elif rec != want:
                        viol.append(oracles.V("recorded-differs", route=route, arg=repr(arg), recorded=rec, want=want))
                else:
                    counters["route_rejected"] = 1
                    if isinstance(oc.exc, MemoryError):
                        counters["route_memoryerror"] = 1
                    elif oc.excname() != "PieceLengthValueError":
                        viol.append(oracles.V("route-wrong-exception", route=route, arg=repr(arg), exc=oc.excname(),
                                              tb=(oc.tb or "")[-800:]))
                    elif valid and (not isinstance(arg, str) or (arg.isascii() and arg.isdigit()
                                                                  and not (len(arg) > 1 and arg[0] == "0"))):
                        viol.append(oracles.V("route-rejected-valid", route=route, arg=repr(arg)))
                    if os.path.exists(out):
                        viol.append(oracles.V("metafile-written-despite-rejection", route=route, arg=repr(arg)))
            sigs.add(("route", route) + tuple(_value_class(arg)))
            sample.update(route=route, arg=repr(arg), accepted=oc.ok, exc=oc.excname())
        sample["violations"] = len(viol)
        return {"violations": viol, "counters": counters, "reach": reach.collect(), "nontrivial": True,
                "sigs": [list(s) for s in sigs], "sample": sample,
                "evaluations": counters.get("contract_evaluations", 0) + counters.get("auto_sizes_checked", 0)}

    @staticmethod
    def classify(case, v):
        return None


# ---------------------------------------------------------------------- C20
SAFE_URLS = ["http://tracker.example.com/announce", "udp://t1.example.org:6969/announce",
             "https://example.net:443/ann?key=1&x=y", "http://ex.com/a+b", "http://exämple.com/ä",
             "udp://[::1]:80/announce", "http://x.y/#frag", "http://h/p=q", "wss://tracker.example/socket",
             "ftp://ftp.example.site/content", "http://h/a:b", "http://tr.example/announce?tags=a,b", "http://h/x,y;z"]
SAFE_WORDS = ["hello", "a comment with spaces", "Ünï cødé", "x", "SRC", "k=v", "semi;colon", "日本語", "a:b", "[x]",
              # characters an ini reader may give a meaning of their own when they follow a blank
              "Release #3 ; final", "a ;b", "x # y", "100% done", "%(name)s", "$HOME", "tail = value", "colon: value",
              # words a configuration reader may take for a boolean or for nothing
              "no", "on", "1", "0", "yes", "off", "none", "true", "False"]


def _c20_argv(case, path, out):
    o = case["opts"]
    lists, scalars = [], []
    if o.get("announce"):
        lists.append([case["flagnames"]["announce"]] + o["announce"])
    if o.get("url_list"):
        lists.append(["--web-seed"] + o["url_list"])
    if o.get("httpseeds"):
        lists.append(["--http-seed"] + o["httpseeds"])
    if o.get("private"):
        scalars.append([case["flagnames"]["private"]])
    if o.get("source") is not None:
        scalars.append([case["flagnames"]["source"], o["source"]])
    if o.get("comment") is not None:
        scalars.append([case["flagnames"]["comment"], o["comment"]])
    if o.get("piece_length") is not None:
        scalars.append(["--piece-length", str(o["piece_length"])])
    if o.get("meta_version") is not None:
        scalars.append(["--meta-version", o["meta_version"]])
    if out is not None:
        scalars.append([case["flagnames"]["out"], out])
    if o.get("align"):
        scalars.append(["--align"])
    scalars.append(["--prog", str(case.get("cli_prog", 0))])
    import random
    rng = random.Random(case["order_seed"])
    sp = case.get("cli_spelling")
    if sp:
        # other spellings argparse gives every option: --opt=value, unambiguous abbreviations of long options
        abbr = {"--private": "--priv", "--source": "--sou", "--comment": "--comm", "--piece-length": "--piece-l",
                "--meta-version": "--meta-v", "--out": "--ou", "--align": "--ali", "--prog": "--prog"}
        for g in scalars:
            how = sp if sp != "mixed" else rng.choice(["equals", "abbrev", "both", None])
            if not g[0].startswith("--") or how is None:
                continue
            if how in ("abbrev", "both"):
                g[0] = abbr.get(g[0], g[0])
            if how in ("equals", "both") and len(g) == 2:
                g[:] = [g[0] + "=" + g[1]]
    rng.shuffle(lists)
    rng.shuffle(scalars)
    pos = case["pos"]
    flat = lambda groups: [x for g in groups for x in g]  # noqa: E731
    head = [case["cmd"]] if case["cmd"] else []
    if pos == "first" or (pos == "implicit"):
        allg = lists + scalars
        rng.shuffle(allg)
        return head + [path] + flat(allg), "first"
    if pos == "swallowed" and lists:
        k = rng.randrange(len(lists))
        before = lists[:k] + scalars[:len(scalars) // 2]
        rng.shuffle(before)
        after = lists[k + 1:] + scalars[len(scalars) // 2:]
        rng.shuffle(after)
        # the group right after the path must start with a flag (they all do)
        return head + flat(before) + lists[k] + [path] + flat(after), "swallowed:" + lists[k][0]
    if pos == "middle":
        a = lists[:1] + scalars[:max(1, len(scalars) // 2)]
        rng.shuffle(a)
        # path must follow a scalar group
        sc = [g for g in a if g[0] not in ("-a", "--announce", "--tracker", "--web-seed", "--http-seed")]
        li = [g for g in a if g not in sc]
        b = lists[1:] + scalars[max(1, len(scalars) // 2):]
        rng.shuffle(b)
        return head + flat(li) + flat(sc) + [path] + flat(b), "middle"
    # last: path after a scalar group (or after the conventional end-of-options marker)
    if case.get("double_dash"):
        return head + flat(scalars) + flat(lists) + ["--", path], "last"
    return head + flat(lists) + flat(scalars) + [path], "last"


def _c20_ini(case, out):
    o = case["opts"]
    lines = ["[config]"]
    def multi(key, vals):
        if len(vals) == 1 and case.get("ini_inline"):
            lines.append(f"{key} = {vals[0]}")          # one URL written on the key's own line
            return
        if case.get("ini_first_inline"):
            lines.append(f"{key} = {vals[0]}")          # first URL inline, the rest on continuation lines
            vals = vals[1:]
        else:
            lines.append(f"{key} =")
        for v in vals:
            lines.append(f"    {v}")
    if o.get("announce"):
        multi(case["ininames"]["announce"], o["announce"])
    if o.get("url_list"):
        multi("web-seed", o["url_list"])
    if o.get("httpseeds"):
        multi("http-seed", o["httpseeds"])
    if o.get("private"):
        lines.append("private = true")
    elif case.get("ini_private_false"):
        lines.append("private = false")
    if o.get("source") is not None:
        lines.append("source = " + o["source"].replace("%", "%%"))     # the ini spelling of a literal per cent sign
    if o.get("comment") is not None:
        lines.append("comment = " + o["comment"].replace("%", "%%"))
    if o.get("piece_length") is not None:
        lines.append(f"piece-length = {o['piece_length']}")
    if o.get("meta_version") is not None:
        lines.append(f"meta-version = {o['meta_version']}")
    if out is not None:
        lines.append(f"out = {out}")
    if o.get("align"):
        lines.append("align = true")
    import random
    body = lines[1:]
    # keep multi-line groups intact while shuffling
    groups, cur = [], []
    for ln in body:
        if ln.startswith("    "):
            cur.append(ln)
        else:
            if cur:
                groups.append(cur)
            cur = [ln]
    if cur:
        groups.append(cur)
    random.Random(case["order_seed"]).shuffle(groups)
    return "\n".join(["[config]"] + [ln for g in groups for ln in g]) + "\n"


class C20:
    id = "C20"
    quick, thorough = 1200, 24000
    timeout = 120
    rule = ("case = random subset/values of {announce 1-3, web-seed, http-seed, private, source, comment, "
            "piece-length, meta-version, out (file / dir/ / default), align} supplied (1) as CLI flags with the "
            "content path first / middle / last / directly after a list-valued flag / with implicit create and "
            "flag aliases, (2) as keys of a configuration file, (3) as library keywords; oracle: every option is "
            "in its documented metafile field and the three span-decoded files are identical with creation date "
            "masked; non-trivial when >= 2 options are set; distinct by (option subset, CLI order class, version, "
            "out form)")
    required = ("three_routes_compared", "config_route_executed", "swallowed_path_cases", "fields_checked",
                "out_file_cases", "out_dir_cases", "config_inline_single_value", "config_location_cwd",
                "config_location_home", "config_after_earlier_config_create", "cli_path_not_normalised")
    assumptions = ("INI-unsafe values (%, leading/trailing blanks, newlines, the words true/false) are not generated",
                   "documented configuration keys are the singular long option names of the manual's example")

    @staticmethod
    def gen(rng, tier, i):
        o = {}
        if rng.random() < 0.7:
            o["announce"] = rng.sample(SAFE_URLS, rng.randint(1, 3))
        if rng.random() < 0.45:
            o["url_list"] = rng.sample(SAFE_URLS, rng.randint(1, 3))
        if rng.random() < 0.4:
            o["httpseeds"] = rng.sample(SAFE_URLS, rng.randint(1, 2))
        if rng.random() < 0.4:
            o["private"] = True
        if rng.random() < 0.4:
            o["source"] = rng.choice(SAFE_WORDS)
        if rng.random() < 0.4:
            o["comment"] = rng.choice(SAFE_WORDS)
        if rng.random() < 0.6:
            e = rng.choice([14, 15, 16])
            o["piece_length"] = rng.choice([e, 2 ** e])
        if rng.random() < 0.7:
            o["meta_version"] = rng.choice(["1", "2", "3"])
        if rng.random() < 0.35:
            o["align"] = True
        single = rng.random() < 0.25
        pl = 16384
        if single:
            tree = gen.gen_tree(rng, pl, tier, layout="single", maxp=3, ascii_names=True)
        else:
            tree = gen.gen_tree(rng, pl, tier, layout=rng.choice(["flat", "nested", "empties"]), maxp=3)
        return {"opts": o, "tree": tree, "out": rng.choice([None, "file", "file", "dir", "inside"]),
                "pos": rng.choice(["first", "middle", "last", "swallowed", "swallowed", "implicit"]),
                "cmd": None, "order_seed": rng.randrange(1 << 30),
                "flagnames": {"announce": rng.choice(["-a", "--announce", "--tracker"]),
                              "private": rng.choice(["-p", "--private"]), "source": rng.choice(["-s", "--source"]),
                              "comment": rng.choice(["-c", "--comment"]), "out": rng.choice(["-o", "--out"])},
                "ininames": {"announce": rng.choice(["announce", "announce", "tracker"])},
                "ini_private_false": rng.random() < 0.3, "ini_inline": rng.random() < 0.5,
                "ini_first_inline": rng.random() < 0.25, "ini_location": rng.choice(["path", "path", "cwd", "home"]),
                "config_prelude": rng.random() < 0.3,
                "spell": rng.choice([None, None, "trailing-slash", "double-sep", "dot-segment", "dotdot"]), "cmdword": rng.choice(["create", "new"]),
                "cli_spelling": rng.choice([None, None, "equals", "abbrev", "mixed"]), "double_dash": rng.random() < 0.3,
                # the progress display is no create option of the statement: each route gets its own mode
                "cli_prog": rng.choice([0, 1, 2]), "lib_prog": rng.choice([0, 1, 2]), "cfg_prog": rng.choice([0, 1, 2]),
                "lib_path_kw": rng.choice(["path", "content"]), "lib_pl_str": rng.random() < 0.5}

    @staticmethod
    def run(case, scratch):
        torrent, commands = drive.mod("torrent"), drive.mod("commands")
        reach = env.Reach()
        reach.start({"commands.create": env.Tolerant(commands).create, "commands.parse_config_file": env.Tolerant(commands).parse_config_file,
                     "commands.find_config_file": env.Tolerant(commands).find_config_file, "MetaFile.__init__": env.Tolerant(torrent).MetaFile.__init__})
        env.install_enum_order("shuffle", case["order_seed"])
        counters, viol = {}, []
        tree = case["tree"]
        base = os.path.join(scratch, "in")
        root = os.path.join(base, tree["name"])
        if tree["single"]:
            materialise(base, [[tree["name"], tree["files"][0][1], tree["files"][0][2]]])
        else:
            materialise(root, tree["files"], tree["dirs"], tree.get("links", ()))
        case = dict(case)
        case["cmd"] = None if case["pos"] == "implicit" else case["cmdword"]
        o = case["opts"]
        raws, outs = {}, {}

        def outspec(sub):
            if case["out"] is None:
                return None, os.path.join(sub, tree["name"] + ".torrent")
            os.makedirs(os.path.join(sub, "o"), exist_ok=True)
            if case["out"] == "inside" and os.path.isdir(root):
                # a new file INSIDE the content directory: it is not part of the payload on any route
                p = os.path.join(root, "zz saved.torrent")
                counters["out_inside_content_cases"] = 1
                return p, p
            if case["out"] in ("file", "inside"):
                p = os.path.join(sub, "o", "x.torrent")
                return p, p
            return os.path.join(sub, "o") + "/", os.path.join(sub, "o", tree["name"] + ".torrent")

        orderclass = None
        for route in ("cli", "config", "lib"):
            sub = os.path.join(scratch, route)
            os.makedirs(sub)
            os.chdir(sub)
            outarg, expect = outspec(sub)
            if route == "cli":
                sp = case.get("spell")
                parent_, base_ = os.path.split(root)
                cli_path = root
                if sp == "trailing-slash" and os.path.isdir(root):
                    cli_path = root + "/"
                elif sp == "double-sep":
                    cli_path = parent_ + "//" + base_
                elif sp == "dot-segment":
                    cli_path = os.path.join(parent_, ".", base_)
                elif sp == "dotdot":
                    cli_path = os.path.join(root, "..", base_) if os.path.isdir(root) else root
                if sp and cli_path != root:
                    counters["cli_path_not_normalised"] = 1
                if case.get("cli_spelling"):
                    counters["cli_option_spelling_" + case["cli_spelling"]] = 1
                if case.get("double_dash") and case["pos"] == "last":
                    counters["cli_double_dash_before_path"] = 1
                argv, orderclass = _c20_argv(case, cli_path, outarg)
                oc = drive.cli_execute(argv)
            elif route == "config":
                if case.get("config_prelude"):
                    # an earlier `create --config` in this process used a different, fully populated file
                    pre = os.path.join(scratch, "preconfig")
                    os.makedirs(pre, exist_ok=True)
                    with open(os.path.join(pre, "full.ini"), "w", encoding="utf-8") as fd:
                        fd.write("[config]\nannounce =\n    http://stale.example/announce\n    http://stale2.example/a\n"
                                 "web-seed =\n    http://stale.example/ws\nhttp-seed =\n    http://stale.example/hs\n"
                                 "private = true\nsource = STALE\ncomment = stale comment\npiece-length = 17\n"
                                 "meta-version = 1\nalign = true\nout = " + os.path.join(pre, "stale.torrent") + "\n")
                    drive.cli_execute(["create", "--config", "--config-path", os.path.join(pre, "full.ini"), "--prog", "0", root])
                    counters["config_after_earlier_config_create"] = 1
                loc = case.get("ini_location", "path")
                if loc == "cwd":
                    ini = os.path.join(sub, "torrentfile.ini")           # documented default #1: ./torrentfile.ini
                elif loc == "home":
                    ini = os.path.join(os.environ["HOME"], ".torrentfile", "torrentfile.ini")   # default #2
                    os.makedirs(os.path.dirname(ini), exist_ok=True)
                else:
                    ini = os.path.join(sub, "cfg.ini")
                with open(ini, "w", encoding="utf-8") as fd:
                    fd.write(_c20_ini(case, outarg))
                cfg = ["--config", "--config-path", ini] if loc == "path" else ["--config"]
                oc = drive.cli_execute(["create"] + cfg + ["--prog", str(case.get("cfg_prog", 0)), root])
                counters["config_location_" + loc] = 1
                if loc != "path":
                    os.remove(ini)        # not part of the produced output
                counters["config_route_executed"] = 1
                if case.get("ini_inline") and any(len(o.get(k) or []) == 1 for k in ("announce", "url_list", "httpseeds")):
                    counters["config_inline_single_value"] = 1
            else:
                kw = {case["lib_path_kw"]: root, "progress": case.get("lib_prog", 0)}
                for k in ("announce", "url_list", "httpseeds", "private", "source", "comment", "align"):
                    if k in o:
                        kw[k] = o[k]
                if "piece_length" in o:
                    kw["piece_length"] = str(o["piece_length"]) if case["lib_pl_str"] else o["piece_length"]
                mv = o.get("meta_version", "1")
                if "meta_version" in o:
                    kw["meta_version"] = mv
                if outarg is not None:
                    kw["outfile"] = outarg
                try:
                    t = torrent.TorrentFile(**kw) if mv == "1" else torrent.TorrentAssembler(**kw)
                    t.write()
                    oc = drive.Outcome(ret=True)
                except BaseException as exc:  # noqa
                    import traceback
                    oc = drive.Outcome(exc=exc, tb=traceback.format_exc())
            os.chdir(scratch)
            if not oc.ok:
                viol.append(oracles.V("route-raised", route=route, exc=oc.excname(), tb=(oc.tb or "")[-1000:],
                                      order=orderclass))
                continue
            if not os.path.isfile(expect) and case["out"] is None and \
                    os.path.isfile(os.path.join(base, tree["name"] + ".torrent")):
                expect = os.path.join(base, tree["name"] + ".torrent")     # "adjacent to the content" (manual)
            if not os.path.isfile(expect):
                produced = sorted(os.path.relpath(os.path.join(d, f), sub) for d, _, fs in os.walk(sub) for f in fs)
                viol.append(oracles.V("metafile-not-at-out", route=route, expected=os.path.relpath(expect, sub),
                                      files_in_route_dir=produced[:6], out=case["out"]))
                continue
            with open(expect, "rb") as fd:
                raws[route] = fd.read()
            if expect == os.path.join(base, tree["name"] + ".torrent") or os.path.dirname(expect) == root:
                os.remove(expect)
        if case["out"] == "file":
            counters["out_file_cases"] = 1
        elif case["out"] == "dir":
            counters["out_dir_cases"] = 1
        if orderclass and orderclass.startswith("swallowed"):
            counters["swallowed_path_cases"] = 1
        # documented fields (judged on every route that produced a file)
        for route, raw in raws.items():
            try:
                top, info, _ = oracles.decode_meta(raw)
            except Exception as e:
                viol.append(oracles.V("undecodable", route=route, error=repr(e)))
                continue
            counters["fields_checked"] = counters.get("fields_checked", 0) + 1

            def val(node):
                return None if node is None else node.py()
            exp = {}
            if o.get("announce"):
                exp["announce"] = (val(top.get(b"announce")), o["announce"][0].encode())
                al = val(top.get(b"announce-list"))
                flat = [u for t in al for u in t] if isinstance(al, list) and all(isinstance(t, list) for t in al) else al
                exp["announce-list"] = (flat, [u.encode() for u in o["announce"]])
            else:
                exp["announce"] = (val(top.get(b"announce")), None)
            exp["url-list"] = (val(top.get(b"url-list")), [u.encode() for u in o["url_list"]] if o.get("url_list") else None)
            exp["httpseeds"] = (val(top.get(b"httpseeds")), [u.encode() for u in o["httpseeds"]] if o.get("httpseeds") else None)
            exp["private"] = (val(info.get(b"private")), 1 if o.get("private") else None)
            exp["source"] = (val(info.get(b"source")), o["source"].encode() if o.get("source") is not None else None)
            exp["comment"] = (val(info.get(b"comment")), o["comment"].encode() if o.get("comment") is not None else None)
            if "piece_length" in o:
                p = o["piece_length"]
                exp["piece length"] = (val(info.get(b"piece length")), p if p >= 16384 else 2 ** p)
            mv = o.get("meta_version", "1")
            ver = rt.meta_version(info)
            exp["version"] = (ver, int(mv))
            for field, (got, want) in exp.items():
                if got != want:
                    viol.append(oracles.V("option-not-in-documented-field", route=route, field=field,
                                          got=got, want=want, order=orderclass))
            if o.get("align") and mv == "1" and not tree["single"]:
                plv = val(info.get(b"piece length"))
                sizes = [l for _, l, p in rt.v1_entries(info) if not p]
                needs = any(s % plv for s in sizes[:-1])
                has = any(p for _, _, p in rt.v1_entries(info))
                if needs and not has:
                    viol.append(oracles.V("align-not-applied", route=route))
        if len(raws) == 3:
            counters["three_routes_compared"] = 1
            masked = {r: mask_creation_date(raw) for r, raw in raws.items()}
            if not (masked["cli"] == masked["config"] == masked["lib"]):
                diff = [r for r in ("config", "lib") if masked[r] != masked["cli"]]
                viol.append(oracles.V("routes-differ", differing_from_cli=diff, order=orderclass,
                                      lens={r: len(m) for r, m in masked.items()}))
        nopt = len(o) + (1 if case["out"] else 0)
        return {"violations": viol, "counters": counters, "reach": reach.collect(), "nontrivial": nopt >= 2,
                "sig": [sorted(o), orderclass, o.get("meta_version", "1"), case["out"]],
                "sample": {"options": o, "out": case["out"], "cli_order": orderclass,
                           "routes_with_output": sorted(raws), "violations": len(viol)}}

    @staticmethod
    def classify(case, v):
        return None
