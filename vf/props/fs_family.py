"""C17 (interrupted / failed edit never loses the metafile) and C18 (read-only
commands, create writes one file, rename never clobbers)."""
import errno
import os
import shutil

from .. import drive, gen, oracles
from ..harness import content, fork_call, materialise
from ..monitors import env, faults
from ..ref import bencode as rb
from ..ref import torrent as rt
from .meta_family import FIELDS, gen_opts, gen_request

KNOWN_AUDIT = {"open-w", "os.remove", "os.rename", "os.chmod", "os.truncate", "os.link", "os.symlink",
               "tempfile.mkstemp", "shutil.copymode", "shutil.copyfile", "shutil.copystat", "os.utime", "os.mkdir",
               "os.rmdir",
               # composite helpers: every primitive they use (rename, open, sendfile, unlink) raises its own event / is wrapped
               "shutil.move"}


def _edit_call(mpath, req, via):
    """Run the edit (library or CLI).  Returns exception type name or None."""
    if via == "cli":
        from .meta_family import apply_edit
        oc = apply_edit(mpath, {"route": "cli", "req": req})
        return None if oc.ok else oc.excname()
    edit = drive.mod("edit")
    args = {f: None for f in FIELDS}
    for f, r in req.items():
        args[f] = "" if r[0] == "clear" else r[1]
    try:
        edit.edit_torrent(mpath, args)
        return None
    except BaseException as exc:  # noqa
        return type(exc).__name__


def _raw_request_call(mpath, args):
    edit = drive.mod("edit")
    try:
        edit.edit_torrent(mpath, dict(args))
        return None
    except BaseException as exc:  # noqa
        return type(exc).__name__


def _modules():
    import pyben
    import pyben.api
    import pyben.bencode
    import pyben.classes
    return [drive.mod("edit"), drive.mod("commands"), pyben.api, pyben.bencode, pyben.classes]


def _place(workdir, orig, setup):
    """Fresh copy of the metafile with the case's mode; returns the path as the edit will be given it."""
    os.makedirs(workdir, exist_ok=True)
    mpath = os.path.join(workdir, "m.torrent")
    if setup.get("linked"):
        # the metafile path is a symbolic link (a watch-directory entry pointing into a store): whatever the edit does
        # with the link, the bytes read THROUGH the path must be the old or the new metafile at every moment
        os.makedirs(os.path.join(workdir, "store"), exist_ok=True)
        shutil.copyfile(orig, os.path.join(workdir, "store", "real.torrent"))
        os.symlink(os.path.join("store", "real.torrent") if setup["linked"] == "relative"
                   else os.path.join(workdir, "store", "real.torrent"), mpath)
    else:
        shutil.copyfile(orig, mpath)
    os.chmod(mpath, setup.get("mode", 0o644))
    os.chdir(workdir)
    return "m.torrent" if setup.get("relative") else mpath


def _phase1(workdir, orig, req, via, setup):
    """Un-faulted run with full tracing.  (grandchild)"""
    mpath = _place(workdir, orig, setup)
    lt = faults.LineTracer(_modules())
    ff = faults.FsFaults()
    ff.install()
    env.AUDIT.start()
    ff.active = True
    lt.start()
    exc = _edit_call(mpath, req, via)
    lt.stop()
    ff.active = False
    events = env.AUDIT.stop()
    ff.uninstall()
    with open(mpath, "rb") as fd:
        new = fd.read()
    leftovers = sorted(n for n in os.listdir(workdir) if n not in ("m.torrent", "store"))
    return {"exc": exc, "new": new, "lines": lt.trace, "ops": ff.ops, "audit": [e for e, _ in events],
            "leftovers": leftovers}


def _phase2(workdir, orig, req, via, fault, setup):
    """One faulted run (grandchild).  Returns exception name (or dies)."""
    mpath = _place(workdir, orig, setup)
    if fault[0] == "line":
        lt = faults.LineTracer(_modules())
        lt.start(crash_at=fault[1])
        exc = _edit_call(mpath, req, via)
        lt.stop()
        return {"exc": exc, "reached": lt.count >= fault[1]}
    ff = faults.FsFaults()
    ff.fault = (fault[1], tuple(fault[2])) if fault[0] == "op" else fault      # ("op", idx, action) | ("multi", [...])
    ff.install()
    ff.active = True
    exc = _edit_call(mpath, req, via)
    ff.active = False
    ff.uninstall()
    return {"exc": exc, "reached": len(ff.ops) > (fault[1] if fault[0] == "op" else 0)}


def _phase_unencodable(workdir, orig, args, setup):
    mpath = _place(workdir, orig, setup)
    return {"exc": _raw_request_call(mpath, args)}


def _plain_edit(workdir, start_bytes, req, via, setup):
    """Un-faulted edit of a metafile holding start_bytes; returns the resulting bytes (grandchild)."""
    os.makedirs(workdir, exist_ok=True)
    src = os.path.join(workdir, "start.bin")
    with open(src, "wb") as fd:
        fd.write(start_bytes)
    mpath = _place(os.path.join(workdir, "w"), src, setup)
    exc = _edit_call(mpath, req, via)
    with open(os.path.join(workdir, "w", "m.torrent"), "rb") as fd:
        return {"exc": exc, "new": fd.read()}


def _phase_seq(workdir, orig, req1, req2, via, pre_fault, fault2, setup):
    """Fault SEQUENCE in one process: edit 1 suffers an I/O error (and survives), edit 2 suffers fault2."""
    mpath = _place(workdir, orig, setup)
    real = os.path.join(workdir, "m.torrent")
    ff = faults.FsFaults()
    ff.fault = pre_fault
    ff.install()
    ff.active = True
    exc1 = _edit_call(mpath, req1, via)
    ff.active = False
    fired1 = ff.fired
    ff.uninstall()
    try:
        with open(real, "rb") as fd:
            s1 = fd.read()
    except FileNotFoundError:
        s1 = None
    with open(os.path.join(workdir, "s1.bin"), "wb") as fd:
        fd.write(b"MISSING" if s1 is None else b"OK:" + s1)
    ff2 = faults.FsFaults()
    ff2.fault = fault2
    ff2.install()
    ff2.active = True
    exc2 = _edit_call(mpath, req2, via)
    ff2.active = False
    ff2.uninstall()
    return {"exc1": exc1, "exc2": exc2, "fired1": fired1, "fired2": ff2.fired}


class _Obj:
    pass


UNENCODABLE = [
    ("float-comment", {"comment": 1.5}), ("none-in-list", {"announce": ["http://a/b", None]}),
    ("object-in-list", {"url-list": ["http://w", _Obj()]}), ("float-in-list", {"httpseeds": [2.5]}),
    ("set-value", {"url-list": [{"a", "b"}]}), ("empty-announce-list", {"announce": []}),
    ("object-source", {"source": _Obj()}), ("nested-float", {"httpseeds": [["x", 1.0]]}),
]


class C17:
    rule_extra = ('Later additions: read-only metafiles, fault sequences over two edits in one process, descriptor-level primitives (fchmod, ftruncate, os.write) and silent short writes on os.write and on unbuffered file objects; the metafile path being a symbolic link (2 cases in 7), bytes read through the path.')
    id = "C17"
    level = "fault_enumeration"
    quick, thorough = 48, 720
    timeout = 600
    rule = ("case = (metafile v1/v2/hybrid, edit request, route); phase 1 traces the un-faulted edit: every LINE event "
            "inside torrentfile.edit / torrentfile.commands / pyben (sys.monitoring) and every filesystem operation "
            "seen by the wrappers (open for writing, each write / flush / close, os.open, os.remove, os.replace/rename, "
            "os.chmod, os.fsync ...), cross-checked against the audit-hook log (an unwrapped write event makes the case "
            "inconclusive); phase 2 re-runs the edit in a fresh forked process once per fault: crash (os._exit) before "
            "the first and last occurrence of every distinct line and before 24 further line events, crash before / "
            "after every filesystem operation, crash after 0 / 1 / half / n-1 bytes of every write, OSError EACCES / "
            "ENOSPC / EIO instead of every operation, short write then ENOSPC, error on close; fault SEQUENCES in one "
            "process (edit 1 survives an injected EACCES/ENOSPC at any of its operations, then a second edit is hit "
            "by a crash / short write / error at its first write, open, close, replace, remove or chmod); metafile "
            "modes 0644..0400 and relative/absolute spelling; plus requests whose values cannot be encoded; oracle: bytes at the metafile path are exactly the old or exactly the new "
            "(un-faulted) bytes; after a raised error: the old ones unless the new file was already in place.  Every "
            "faulted execution is one evaluation; distinct by (version, request shape, fault point kind, fault kind)")
    required = ("line_fault_points", "op_fault_points", "write_byte_fault_points", "error_faults", "crashes_observed",
                "errors_propagated", "unencodable_requests", "traces_complete", "readonly_metafile_cases", "fault_sequences",
                "metafile_path_is_symlink_cases")
    assumptions = ("crash = process death at a Python-visible point (os._exit); power-loss durability of un-fsynced "
                   "data is not observable here", "the filesystem primitives listed in monitors/faults.py are the only "
                   "ones used (checked per case against the audit hook)")

    @staticmethod
    def gen(rng, tier, i):
        version = [1, 2, 3][i % 3]
        route = rng.choice(["lib", "lib", "cli"])
        req = gen_request(rng, route)
        nfiles = rng.choice([1, 2, 4])
        return {"version": version, "via": route, "req": req, "opts": gen_opts(rng),
                "files": [[f"f{k}", rng.choice([10, 20000, 40000]), rng.randrange(1 << 30)] for k in range(nfiles)],
                "seed": rng.randrange(1 << 30), "extra_lines": 24 if tier == "quick" else "all",
                "mode": rng.choice([0o644, 0o644, 0o600, 0o444, 0o400, 0o664]), "relative": rng.random() < 0.3,
                "req2": gen_request(rng, route), "seq_samples": 16 if tier == "quick" else 60,
                "unenc": [rng.randrange(len(UNENCODABLE)) for _ in range(2)],
                "linked": rng.choice([None] * 5 + ["relative", "absolute"])}

    @staticmethod
    def run(case, scratch):
        import random
        rng = random.Random(case["seed"])
        o = case["opts"]
        kw = dict(private=o.get("private", False), source=o.get("source"), comment=o.get("comment"),
                  url_list=o.get("url_list"), httpseeds=o.get("httpseeds"))
        if o.get("announce"):
            kw["announce"] = o["announce"][0]
            kw["announce_list"] = [o["announce"]]
        files = [((f[0],), content(f[2], f[1])) for f in case["files"]]
        old = rt.build("T", files=files, pl=16384, version=case["version"], **kw)
        orig = os.path.join(scratch, "orig.torrent")
        with open(orig, "wb") as fd:
            fd.write(old)
        setup = {"mode": case.get("mode", 0o644), "relative": case.get("relative", False), "linked": case.get("linked")}
        st, p1 = fork_call(_phase1, os.path.join(scratch, "p1"), orig, case["req"], case["via"], setup)
        if st != "ok":
            return {"inconclusive": f"phase 1 {st}", "traceback": str(p1)[-1500:]}
        counters, viol, sigs = {}, [], set()
        if p1["exc"] is not None and case.get("linked") and p1["new"] == old:
            # an implementation may decline to edit through a symbolic link: nothing was lost or truncated
            return {"violations": [], "counters": {"edit_through_link_declined": 1, "metafile_path_is_symlink_cases": 1}, "nontrivial": False,
                    "sig": ["declined-link"], "sample": {"request": case["req"], "declined": p1["exc"]}}
        if p1["exc"] is not None:
            viol.append(oracles.V("unfaulted-edit-raised", exc=p1["exc"], request=case["req"]))
            return {"violations": viol, "counters": counters, "nontrivial": True, "sig": ["unfaulted-raise"],
                    "sample": {"request": case["req"]}}
        new = p1["new"]
        unknown = sorted(set(p1["audit"]) - KNOWN_AUDIT)
        n_audit_w = sum(1 for e in p1["audit"] if e in ("open-w", "os.remove", "os.rename", "os.chmod", "os.truncate", "os.link"))
        n_ops_w = sum(1 for k, _, _ in p1["ops"] if k in ("open-w", "os.open-w", "os.remove", "os.unlink", "os.replace",
                                                            "os.rename", "os.chmod", "os.fchmod", "os.truncate",
                                                            "os.ftruncate", "os.link"))
        if unknown or n_audit_w != n_ops_w:
            # the edit used a primitive the wrappers do not know: the faults that CAN be injected are still injected and
            # judged (a violation found this way is real); the case just does not count towards 'traces_complete',
            # without which the run as a whole is inconclusive rather than held
            counters["traces_with_unwrapped_events"] = 1
            counters["unwrapped:" + ",".join(unknown)[:80] + f"/audit={n_audit_w}/wrapped={n_ops_w}"] = 1
        else:
            counters["traces_complete"] = 1
        reqshape = sorted((f, r[0]) for f, r in case["req"].items())
        # ---------------- enumerate faults
        flist = []
        first, last = {}, {}
        for idx, loc in enumerate(p1["lines"], 1):
            first.setdefault(loc, idx)
            last[loc] = idx
        line_idx = set(first.values()) | set(last.values())
        nlines = len(p1["lines"])
        if case["extra_lines"] == "all":
            line_idx = set(range(1, nlines + 1))           # thorough tier: crash before EVERY traced line event
        else:
            for _ in range(case["extra_lines"]):
                if nlines:
                    line_idx.add(rng.randint(1, nlines))
        for k in sorted(line_idx):
            flist.append((("line", k), "line-crash", p1["lines"][k - 1]))
        for idx, (kind, path, extra) in enumerate(p1["ops"]):
            flist.append((("op", idx, ("crash-before",)), "op-crash-before", kind))
            flist.append((("op", idx, ("crash-after",)), "op-crash-after", kind))
            for en, ev in faults.ERRNOS.items():
                flist.append((("op", idx, ("error", ev)), "op-error-" + en, kind))
            if kind == "write" and isinstance(extra, int) and extra > 0:
                for nb in sorted({0, 1, extra // 2, extra - 1}):
                    flist.append((("op", idx, ("crash-after-bytes", nb)), "write-crash-after-bytes", kind))
                    flist.append((("op", idx, ("short-then-error", faults.ERRNOS["ENOSPC"], nb)), "write-short-then-enospc", kind))
                    if (path.startswith("fd") or path.startswith("raw:")) and nb:
                        # descriptor-level write: the kernel may accept only part of the data WITHOUT raising
                        flist.append((("op", idx, ("short-silent", nb)), "write-short-silent", kind))
        # the swap itself is refused (EBUSY on a bind-mounted file, EPERM in a sticky directory ...) AND whatever the
        # implementation does next is hit as well: a fall-back that rewrites the metafile in place shows here
        for idx, (kind, path, extra) in enumerate(p1["ops"]):
            if kind not in ("os.replace", "os.rename"):
                continue
            n_open = sum(1 for o in p1["ops"][:idx + 1] if o[0] in ("open-w", "os.open-w"))
            n_write = sum(1 for o in p1["ops"][:idx + 1] if o[0] == "write")
            refused = (idx, ("error", errno.EBUSY))
            for second, tag in ((("match", "open-w|os.open-w", n_open, ("crash-after",)), "then-crash-after-next-open"),
                                (("match", "write", n_write, ("crash-after-bytes", 1)), "then-crash-in-next-write"),
                                (("match", "write", n_write, ("error", faults.ERRNOS["ENOSPC"])), "then-enospc-in-next-write")):
                flist.append((("multi", [refused, second]), "swap-refused-" + tag, kind))
        execs = 0
        bad_samples = []
        for n, (fault, fkind, where) in enumerate(flist):
            wd = os.path.join(scratch, f"f{n}")
            st, res = fork_call(_phase2, wd, orig, case["req"], case["via"], fault, setup, timeout=60)
            execs += 1
            if st == "timeout":
                return {"inconclusive": "faulted run timed out"}
            mpath = os.path.join(wd, "m.torrent")
            try:
                with open(mpath, "rb") as fd:
                    cur = fd.read()
            except FileNotFoundError:
                cur = None
            crashed = st == "died"
            if st == "exc":
                return {"inconclusive": "harness error in faulted run", "traceback": str(res)[-1500:]}
            if crashed:
                counters["crashes_observed"] = counters.get("crashes_observed", 0) + 1
            elif res.get("exc"):
                counters["errors_propagated"] = counters.get("errors_propagated", 0) + 1
            if fkind == "line-crash":
                counters["line_fault_points"] = counters.get("line_fault_points", 0) + 1
            elif fkind.startswith("write-"):
                counters["write_byte_fault_points"] = counters.get("write_byte_fault_points", 0) + 1
            else:
                counters["op_fault_points"] = counters.get("op_fault_points", 0) + 1
            if "error" in fkind or "enospc" in fkind:
                counters["error_faults"] = counters.get("error_faults", 0) + 1
            state = "old" if cur == old else "new" if cur == new else "missing" if cur is None else \
                "empty" if cur == b"" else "truncated" if new.startswith(cur) or old.startswith(cur) else "other"
            sigs.add((case["version"], str(reqshape), fkind, str(where) if fkind != "line-crash" else where[0] + ":" + where[1],
                      oct(case.get("mode", 0o644))))
            if state not in ("old", "new"):
                v = oracles.V("metafile-" + state + "-after-fault", fault_kind=fkind, at=list(where) if isinstance(where, tuple) else where,
                              fault=[str(x) for x in fault], crashed=crashed, raised=None if crashed else res.get("exc"),
                              size=None if cur is None else len(cur), old_size=len(old), new_size=len(new),
                              request=case["req"], via=case["via"])
                viol.append(v)
                if len(bad_samples) < 3:
                    bad_samples.append(v["detail"])
            elif not crashed and res.get("exc") and state == "new" and fkind.startswith("op-error"):
                pass    # error struck after the new file was in place: allowed by the statement
            shutil.rmtree(wd, ignore_errors=True)
        # ---------------- fault sequences: an I/O error survived by edit 1, then a fault during edit 2 (same process)
        req2 = case.get("req2")
        if req2:
            st1, n1 = fork_call(_plain_edit, os.path.join(scratch, "n1"), old, req2, case["via"], setup)
            st2, n2 = fork_call(_plain_edit, os.path.join(scratch, "n2"), new, req2, case["via"], setup)
            if st1 == "ok" and st2 == "ok" and n1["exc"] is None and n2["exc"] is None:
                after = {old: n1["new"], new: n2["new"]}
                pre = [(idx, ("error", ev)) for idx in range(len(p1["ops"])) for ev in (faults.ERRNOS["EACCES"], faults.ERRNOS["ENOSPC"])]
                second = [("match", "write", 0, ("crash-after-bytes", 1)), ("match", "write", 0, ("short-then-error", faults.ERRNOS["ENOSPC"], 7)),
                          ("match", "write", 0, ("crash-before",)), ("match", "open-w|os.open-w", 0, ("crash-after",)),
                          ("match", "close", 0, ("crash-before",)), ("match", "os.replace|os.rename", 0, ("crash-before",)),
                          ("match", "os.replace|os.rename", 0, ("error", faults.ERRNOS["EACCES"])),
                          ("match", "os.remove|os.unlink", 0, ("crash-after",)), ("match", "os.chmod|os.fchmod", 0, ("crash-after",))]
                combos = [(a, b) for a in pre for b in second]
                rng.shuffle(combos)
                for n, (pf, f2) in enumerate(combos[:case.get("seq_samples", 16)]):
                    wd = os.path.join(scratch, f"s{n}")
                    st, res = fork_call(_phase_seq, wd, orig, case["req"], req2, case["via"], pf, f2, setup, timeout=60)
                    execs += 1
                    if st in ("timeout", "exc"):
                        return {"inconclusive": "fault sequence run " + st, "traceback": str(res)[-1500:]}
                    try:
                        with open(os.path.join(wd, "s1.bin"), "rb") as fd:
                            tag = fd.read()
                    except FileNotFoundError:
                        tag = None        # died during edit 1 (cannot happen with error-only faults)
                    try:
                        with open(os.path.join(wd, "m.torrent"), "rb") as fd:
                            cur = fd.read()
                    except FileNotFoundError:
                        cur = None
                    counters["fault_sequences"] = counters.get("fault_sequences", 0) + 1
                    sigs.add((case["version"], "sequence", str(p1["ops"][pf[0]][0]), str(f2[1]), str(f2[3][0])))
                    s1 = None if tag in (None, b"MISSING") else tag[3:]
                    if s1 not in after:
                        viol.append(oracles.V("metafile-bad-after-first-faulted-edit", pre_fault=[str(x) for x in pf],
                                              state="missing" if s1 is None else f"{len(s1)} bytes", request=case["req"]))
                    elif cur not in (s1, after[s1]):
                        viol.append(oracles.V("metafile-bad-after-fault-sequence", pre_fault=[p1["ops"][pf[0]][0]] + [str(x) for x in pf[1]],
                                              second_fault=[str(x) for x in f2], crashed=(st == "died"),
                                              state="missing" if cur is None else f"{len(cur)} bytes (previous {len(s1)}, edited {len(after[s1])})",
                                              requests=[case["req"], req2], via=case["via"]))
                    shutil.rmtree(wd, ignore_errors=True)
        # ---------------- un-encodable requests
        for ui in case["unenc"]:
            label, args = UNENCODABLE[ui]
            wd = os.path.join(scratch, f"u{ui}")
            st, res = fork_call(_phase_unencodable, wd, orig, args, setup, timeout=60)
            execs += 1
            counters["unencodable_requests"] = counters.get("unencodable_requests", 0) + 1
            try:
                with open(os.path.join(wd, "m.torrent"), "rb") as fd:
                    cur = fd.read()
            except FileNotFoundError:
                cur = None
            sigs.add((case["version"], "unencodable", label))
            ok_states = [old]
            if st == "ok" and res.get("exc") is None and cur is not None:
                # the request turned out to be encodable by this implementation: any complete canonical file is fine
                try:
                    top, d = rb.decode(cur)
                    if top.kind == "dict" and top.get(b"info") is not None:
                        ok_states.append(cur)
                except rb.BencodeError:
                    pass
            if cur not in ok_states:
                viol.append(oracles.V("metafile-lost-by-unencodable-request", request=label,
                                      state="missing" if cur is None else f"{len(cur)} bytes",
                                      raised=res.get("exc") if st == "ok" else st))
        if not case.get("mode", 0o644) & 0o200:
            counters["readonly_metafile_cases"] = 1
        if case.get("linked"):
            counters["metafile_path_is_symlink_cases"] = 1
        return {"violations": viol, "counters": counters, "nontrivial": True, "evaluations": execs,
                "sigs": [list(s) for s in sigs],
                "sample": {"version": case["version"], "via": case["via"], "request": case["req"],
                           "metafile_mode": oct(case.get("mode", 0o644)), "relative_path": case.get("relative", False),
                           "line_events_in_trace": nlines, "distinct_lines": len(first),
                           "fs_ops_in_trace": [[k, os.path.basename(p), e if not isinstance(e, list) else e] for k, p, e in p1["ops"]],
                           "audit_events": p1["audit"], "faulted_executions": execs,
                           "every_line_event_enumerated": case["extra_lines"] == "all", "temp_leftovers_unfaulted": p1["leftovers"],
                           "violating_faults": bad_samples}}

    @staticmethod
    def classify(case, v):
        return None


# ---------------------------------------------------------------------- C18
def _audit_paths_outside_dev(events):
    out = []
    for ev, paths in events:
        ps = [p for p in paths if p not in ("/dev/null", "/dev/tty")]
        if ps:
            out.append([ev, ps])
    return out


class C18:
    rule_extra = ('Later additions: empty files at the probe / output path, creates that fail (invalid piece length) or meet metadata that cannot be encoded (lone surrogates in --comment, non-UTF-8 file names), rename targets that are directories, names near NAME_MAX, hard-link / symlink aliases of the metafile.')
    id = "C18"
    quick, thorough = 1500, 30000
    timeout = 120
    rule = ("case = sandbox (payload tree, metafile directory, working directory, output directory) x command: "
            "recheck|check / info / magnet|m (with -q / -v, intact and damaged content, v1/v2/hybrid), create|new|implicit "
            "(all versions, option subsets, -o file / -o dir/ / no -o, optionally with an unrelated pre-existing file "
            "at the writability-probe path or a pre-existing output file), rename (target free / target exists); "
            "monitors: recursive snapshot (names, sizes, SHA-256, modes) of the sandbox before and after and the audit "
            "log of write-class events; oracle: inspecting commands: diff empty and no write event; create: diff == "
            "{+ output metafile} (or that file changed) and payload untouched; rename: {- old, + <name>.torrent} with "
            "identical bytes, or error and empty diff when the target exists; distinct by (command spelling, version, "
            "flags, option subset, content state, out form)")
    required = ("snap_recheck", "snap_info", "snap_magnet", "snap_create", "snap_rename", "create_write_events_seen",
                "probe_path_preexisting", "probe_path_preexisting_empty", "failing_create_cases", "rename_target_exists",
                "rename_target_is_directory", "rename_long_name_cases", "rename_link_alias_cases",
                "damaged_content_cases")
    assumptions = ("directory mtimes are not part of the snapshot", "stdout/stderr go to /dev/null (never to a file in the sandbox)")

    @staticmethod
    def gen(rng, tier, i):
        version = rng.choice([1, 2, 3])
        pl = 16384
        tree = gen.gen_tree(rng, pl, tier, maxp=3)
        cmd = rng.choice(["recheck", "check", "info", "magnet", "m", "create", "create", "new", "implicit", "rename", "rename"])
        case = {"version": version, "tree": tree, "cmd": cmd, "flag": rng.choice([None, None, "-q", "-v"]),
                "seed": rng.randrange(1 << 30), "damage": rng.random() < 0.4, "magnet_version": rng.choice([None, "0", "1", "2", "3"])}
        if cmd in ("create", "new", "implicit"):
            case["opts"] = gen_opts(rng)
            case["out"] = rng.choice([None, None, "file", "file", "dir"])
            case["preexisting"] = rng.choice([None, None, "probe", "probe", "probe-empty", "outfile", "outfile-empty"])
            case["fail"] = rng.random() < 0.15        # invalid piece length: create must fail without side effects
            if not case["fail"] and rng.random() < 0.1:
                # metadata that cannot be encoded as UTF-8 (a lone surrogate from a mis-decoded argument, a file name
                # that is not UTF-8): whether create copes or fails, it may not leave anything but its output behind
                case["fail"] = rng.choice(["comment-unencodable", "name-unencodable"])
            case["pl"] = rng.choice([None, 14, 16384, 15])
            if rng.random() < 0.08:
                # the output lands NEXT TO the payload (-o <payload's parent>/) and the payload is itself called
                # like a metafile: the default name must not collide with what is being described
                case["out"] = "payload-parent"
                case["preexisting"] = None
                if rng.random() < 0.7:
                    nm = rng.choice(["backup.torrent", "x.torrent", "a.b.torrent"])
                    case["tree"] = {"name": nm, "single": True, "files": [[nm, rng.choice([5, 20000, 40000]), rng.randrange(1 << 30)]],
                                    "dirs": [], "layout": "single"}
            case["align"] = rng.random() < 0.2
            case["magnet"] = rng.random() < 0.2
        if cmd == "rename":
            case["long_name"] = rng.choice([None, None, None, 240, 247, 248, 250, 255])
            case["target_exists"] = rng.random() < 0.4
            case["target_kind"] = rng.choice(["file", "file", "dir", "dir-populated", "alias-symlink", "alias-hardlink",
                                              "target-symlink-to-source"])
            case["metaname"] = rng.choice(["old.torrent", "x.torrent", "weird name.torrent", "<case-variant>"])
        return case

    @staticmethod
    def run(case, scratch):
        import random
        rng = random.Random(case["seed"])
        commands, recheck, utils = drive.mod("commands"), drive.mod("recheck"), drive.mod("utils")
        reach = env.Reach()
        reach.start({"commands.info": env.Tolerant(commands).info, "commands.recheck": env.Tolerant(commands).recheck, "commands.magnet": env.Tolerant(commands).magnet,
                     "commands.create": env.Tolerant(commands).create, "commands.rename": env.Tolerant(commands).rename,
                     "utils.check_path_writable": env.Tolerant(utils).check_path_writable, "Checker.log_msg": env.Tolerant(recheck).Checker.log_msg})
        sb = os.path.join(scratch, "sb")
        tree = case["tree"]
        base = os.path.join(sb, "content")
        root = os.path.join(base, tree["name"])
        if tree["single"]:
            materialise(base, [[tree["name"], tree["files"][0][1], tree["files"][0][2]]])
        else:
            materialise(root, tree["files"], tree["dirs"], tree.get("links", ()))
        for d in ("meta", "cwd", "outdir"):
            os.makedirs(os.path.join(sb, d))
        counters, viol = {}, []
        cmd = case["cmd"]
        # only the metafile matters for rename: optionally give the torrent a name close to the file-name limit
        tname = "L" * case["long_name"] if cmd == "rename" and case.get("long_name") else tree["name"]
        if case.get("metaname") == "<case-variant>":
            # the metafile is called like its target except for letter case (another file on a case-sensitive system)
            cv = tname.swapcase()
            ok = cv != tname and len(os.fsencode(cv)) <= 240          # (long-name cases keep their ordinary metafile name)
            case = dict(case, metaname=(cv + ".torrent") if ok else "old.torrent")
        mpath = os.path.join(sb, "meta", case.get("metaname", "m.torrent"))
        if cmd not in ("create", "new", "implicit"):
            # the metafile under inspection is written by the reference encoder (independent of create)
            if tree["single"]:
                raw = rt.build(tname, single=(tname, content(tree["files"][0][2], tree["files"][0][1])),
                               pl=16384, version=case["version"], v2_single_length=True, announce="http://t/a",
                               announce_list=[["http://t/a", "http://t/b"]], url_list=["http://w/s"], comment="c")
            else:
                files = [(tuple(f[0].split("/")), content(f[2], f[1])) for f in sorted(tree["files"])]
                raw = rt.build(tname, files=files, pl=16384, version=case["version"], announce="http://t/a",
                               url_list=["http://w/s"], private=True)
            with open(mpath, "wb") as fd:
                fd.write(raw)
            if case["damage"]:
                counters["damaged_content_cases"] = 1
                victims = [f for f in tree["files"] if f[1] > 0]
                if victims:
                    f = rng.choice(victims)
                    p = root if tree["single"] else os.path.join(root, f[0])
                    k = rng.choice(["flip", "trunc", "remove"]) if not tree["single"] else rng.choice(["flip", "trunc"])
                    if k == "remove":
                        os.remove(p)
                    elif k == "trunc":
                        with open(p, "r+b") as fd:
                            fd.truncate(rng.randrange(f[1]))
                    else:
                        with open(p, "r+b") as fd:
                            fd.seek(rng.randrange(f[1]))
                            fd.write(b"\xff")
        os.chdir(os.path.join(sb, "cwd"))
        prefix = [case["flag"]] if case["flag"] else []
        expect_added, expect_removed, may_change = set(), set(), set()
        if cmd in ("recheck", "check"):
            argv = prefix + [cmd, mpath, rng.choice([root, base])]
            kind = "recheck"
        elif cmd == "info":
            argv = prefix + ["info", mpath]
            kind = "info"
        elif cmd in ("magnet", "m"):
            argv = prefix + [cmd, mpath] + (["--meta-version", case["magnet_version"]] if case["magnet_version"] else [])
            kind = "magnet"
        elif cmd == "rename":
            kind = "rename"
            target = os.path.join(sb, "meta", tname + ".torrent")
            too_long = len(os.fsencode(tname + ".torrent")) > 255
            if case.get("long_name"):
                counters["rename_long_name_cases"] = 1
                for cut in (247, 246, 240, 255 - len(".torrent")):       # bystanders at plausible truncated names
                    by = os.path.join(sb, "meta", tname[:cut] + ".torrent")
                    if by != target and by != mpath and not os.path.exists(by):
                        with open(by, "wb") as fd:
                            fd.write(b"bystander " + str(cut).encode())
            if too_long:
                case = dict(case, target_exists=True, target_kind="unrepresentable")   # must fail, nothing may change
            elif os.path.abspath(target) == os.path.abspath(mpath):
                case = dict(case, target_exists=True)      # already carries its own name: nothing may change
                counters["rename_target_exists"] = 1
            elif case["target_exists"] and case.get("target_kind") in ("alias-symlink", "alias-hardlink", "target-symlink-to-source"):
                # the properly named entry and the entry given on the command line are the same file under two names
                counters["rename_link_alias_cases"] = 1
                tk = case["target_kind"]
                if tk == "target-symlink-to-source":
                    os.symlink(os.path.basename(mpath), target)
                else:
                    os.rename(mpath, target)
                    if tk == "alias-symlink":
                        os.symlink(os.path.basename(target), mpath)
                    else:
                        os.link(target, mpath)
                counters["rename_target_exists"] = 1
            elif case["target_exists"] and case.get("target_kind") != "unrepresentable":
                if case.get("target_kind") == "dir":
                    os.makedirs(target)
                    counters["rename_target_is_directory"] = 1
                elif case.get("target_kind") == "dir-populated":
                    os.makedirs(target)
                    with open(os.path.join(target, "inside.txt"), "wb") as fd:
                        fd.write(b"x")
                    counters["rename_target_is_directory"] = 1
                else:
                    with open(target, "wb") as fd:
                        fd.write(b"d4:infod4:name5:othereee")
                counters["rename_target_exists"] = 1
            else:
                expect_added.add("meta/" + tname + ".torrent")
                expect_removed.add("meta/" + case["metaname"])
            argv = prefix + ["rename", mpath]
        else:
            kind = "create"
            o = case["opts"]
            argv = prefix + ([] if cmd == "implicit" else [cmd])
            argv += [root, "--meta-version", str(case["version"]), "--prog", rng.choice(["0", "1", "2"])]
            fk = case.get("fail")
            if fk is True:
                argv += ["--piece-length", rng.choice(["17000", "12", "abc"])]
            elif case["pl"]:
                argv += ["--piece-length", str(case["pl"])]
            if o.get("private"):
                argv.append("--private")
            if o.get("source") is not None:
                argv += ["--source", o["source"]]
            if fk == "comment-unencodable":
                argv += ["--comment", "caf\udce9 \udcff"]
            elif o.get("comment") is not None:
                argv += ["--comment", o["comment"]]
            if fk == "name-unencodable" and os.path.isdir(root):
                with open(os.path.join(os.fsencode(root), b"not-utf8-\xff\xfe.bin"), "wb") as fd:
                    fd.write(b"x" * 100)
            if case["align"]:
                argv.append("--align")
            if case["magnet"]:
                argv.append("--magnet")
            if case["out"] == "file":
                outp = os.path.join(sb, "outdir", "o.torrent")
                argv += ["-o", outp]
                probe = None
                outrel = "outdir/o.torrent"
            elif case["out"] == "payload-parent":
                argv += ["-o", base + "/"]
                probe = os.path.join(base, ".torrent")
                outrel = "content/" + tree["name"] + ".torrent"
                counters["output_next_to_payload_cases"] = 1
            elif case["out"] == "dir":
                argv += ["-o", os.path.join(sb, "outdir") + "/"]
                probe = os.path.join(sb, "outdir", ".torrent")
                outrel = "outdir/" + tree["name"] + ".torrent"
            else:
                probe = os.path.join(sb, "cwd", ".torrent")
                outrel = "cwd/" + tree["name"] + ".torrent"
            if o.get("announce"):
                argv += ["--announce"] + o["announce"]
            if o.get("url_list"):
                argv += ["--web-seed"] + o["url_list"]
            if o.get("httpseeds"):
                argv += ["--http-seed"] + o["httpseeds"]
            pre = case["preexisting"] or ""
            if pre.startswith("probe") and probe and os.path.join(sb, outrel) != probe:
                with open(probe, "wb") as fd:
                    fd.write(b"" if pre == "probe-empty" else b"an unrelated file that happens to be called .torrent")
                counters["probe_path_preexisting"] = 1
                if pre == "probe-empty":
                    counters["probe_path_preexisting_empty"] = 1
            elif pre.startswith("outfile"):
                with open(os.path.join(sb, outrel), "wb") as fd:
                    fd.write(b"" if pre == "outfile-empty" else b"previous output")
                may_change.add(outrel)
            if case.get("fail") is True:
                counters["failing_create_cases"] = 1
            elif outrel not in may_change:
                expect_added.add(outrel)
            if isinstance(case.get("fail"), str):
                counters["unencodable_metadata_cases"] = 1
        before = env.snapshot(sb)
        env.AUDIT.start()
        no_stderr = "-v" in prefix and case["seed"] % 2 == 0
        if no_stderr:
            counters["verbose_without_stderr_cases"] = 1
        oc = drive.cli_execute(argv, no_stderr=no_stderr)
        events = env.AUDIT.stop()
        details = list(env.AUDIT.details)
        after = env.snapshot(sb)
        d = env.snapdiff(before, after)
        counters["snap_" + kind] = 1
        wevents = _audit_paths_outside_dev(events)
        for e, _ in wevents:
            counters[f"audit:{kind}:{e}"] = counters.get(f"audit:{kind}:{e}", 0) + 1
        shown = [a.replace(scratch, "<S>") for a in argv]
        if kind in ("recheck", "info", "magnet"):
            if not oc.ok and not (kind == "recheck" and oc.excname() in ("FileNotFoundError",)):
                viol.append(oracles.V("inspecting-command-raised", argv=shown, exc=oc.excname(), tb=(oc.tb or "")[-800:]))
            if d["added"] or d["removed"] or d["changed"]:
                viol.append(oracles.V("inspecting-command-modified-sandbox", argv=shown, diff=d))
            # an event that changes the filesystem by itself (create / truncate / remove / rename / mkdir / chmod ...);
            # merely opening an existing file writable changes nothing and is left to the snapshot comparison
            modifying = [(e, ps) for (e, ps), dt in zip(events, details)
                         if [p for p in ps if p not in ("/dev/null", "/dev/tty")] and
                         (e != "open-w" or dt.get("flags", 0) & (os.O_CREAT | os.O_TRUNC))]
            if modifying:
                wevents = modifying
                viol.append(oracles.V("inspecting-command-write-event", argv=shown,
                                      events=[[e, [p.replace(scratch, "<S>") for p in ps]] for e, ps in wevents[:5]]))
        elif kind == "rename":
            if case["target_exists"]:
                if oc.ok and os.path.abspath(target) != os.path.abspath(mpath) and case.get("target_kind") != "alias-hardlink":
                    viol.append(oracles.V("rename-did-not-refuse-existing-target", argv=shown))
                if d["added"] or d["removed"] or d["changed"]:
                    viol.append(oracles.V("rename-clobbered-or-modified", diff=d))
            else:
                if not oc.ok:
                    viol.append(oracles.V("rename-raised", exc=oc.excname(), tb=(oc.tb or "")[-800:]))
                else:
                    if set(d["added"]) != expect_added or set(d["removed"]) != expect_removed or d["changed"]:
                        viol.append(oracles.V("rename-diff-unexpected", diff=d, want_added=sorted(expect_added),
                                              want_removed=sorted(expect_removed)))
                    else:
                        new = after[next(iter(expect_added))]
                        oldm = before[next(iter(expect_removed))]
                        if new[1:3] != oldm[1:3]:
                            viol.append(oracles.V("rename-changed-bytes"))
        else:
            if wevents:
                counters["create_write_events_seen"] = 1
            if case.get("fail") and not (isinstance(case["fail"], str) and oc.ok):
                if oc.ok:
                    viol.append(oracles.V("create-accepted-invalid-piece-length", argv=shown))
                elif d["removed"] or d["changed"] or set(d["added"]) - {outrel}:
                    viol.append(oracles.V("failed-create-modified-sandbox", diff=d, argv=shown,
                                          preexisting=case["preexisting"], out=case["out"]))
            elif not oc.ok:
                viol.append(oracles.V("create-raised", argv=shown, exc=oc.excname(), tb=(oc.tb or "")[-800:]))
            else:
                added, removed, changed = set(d["added"]), set(d["removed"]), set(d["changed"])
                if removed:
                    viol.append(oracles.V("create-deleted-something", removed=sorted(removed), argv=shown,
                                          preexisting=case["preexisting"], out=case["out"]))
                if added != expect_added and case["out"] is None and len(added) == 1 and \
                        next(iter(added)) == "content/" + tree["name"] + ".torrent":
                    added = expect_added        # default location "adjacent to the content" (manual) is as good as the cwd
                if added != expect_added:
                    viol.append(oracles.V("create-added-unexpected", added=sorted(added), want=sorted(expect_added), argv=shown))
                if not changed <= may_change:
                    viol.append(oracles.V("create-changed-unexpected", changed=sorted(changed - may_change), argv=shown))
        flags = [case["flag"], case.get("out"), case.get("preexisting"), case.get("target_exists") and case.get("target_kind"),
                 case["damage"] and kind != "create", bool(case.get("fail"))]
        return {"violations": viol, "counters": counters, "reach": reach.collect(), "nontrivial": True,
                "sig": [cmd, case["version"], flags, sorted(case.get("opts", {})), tree["layout"]],
                "sample": {"argv": shown, "diff": d, "write_events": [[e, [p.replace(scratch, "<S>") for p in ps]] for e, ps in wevents[:4]],
                           "outcome": "ok" if oc.ok else oc.excname(), "violations": len(viol)}}

    @staticmethod
    def classify(case, v):
        return None
