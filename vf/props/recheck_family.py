"""C04, C05, C16: recheck judged against the reference re-checker."""
import os
from fractions import Fraction

from .. import drive, gen, oracles
from ..harness import content, materialise
from ..monitors import env
from ..ref import torrent as rt

TOOL_ROUTES = {1: ["TorrentFile", "cli1"], 2: ["TorrentFileV2", "Assembler2", "cli2"],
               3: ["TorrentFileHybrid", "Assembler3", "cli3"]}
REF_VARIANTS = {1: ["plain", "unsorted", "padded", "extra"], 2: ["plain", "extra", "with-length"],
                3: ["plain", "trailing-pad", "extra"]}


UTF8_SHA256_CONTENT = "vf-utf8-343125952"  # sha256() of this text is a valid UTF-8 byte string (found by search)
UTF8_SHA1_CONTENT = "vf-utf8-100126"      # sha1() of this text is a valid UTF-8 byte string (checked at run time)
# full 16 KiB pieces and a short tail whose SHA-1 digests are valid UTF-8 WITH multi-byte characters (17-19 characters
# for 20 bytes): a pieces string made of them is handed over as text whose character offsets are not byte offsets
UTF8_PIECES = [(b"vf-utf8-piece-%d" % n).ljust(16384, b".").decode() for n in (57626, 74960, 84558)]
UTF8_TAIL = "vf-utf8-tail-4730"


def gen_case(rng, tier, damaged, single_ok=True):
    exp = gen.pick_pl_exp(rng, tier, hi=17 if tier == "quick" else 19)
    pl = 2 ** exp
    tree = gen.gen_tree(rng, pl, tier, allow_single=single_ok, maxp=4)
    if rng.random() < 0.03:
        # piece lengths of 2 / 4 MiB with files of a few pieces: buffers, counters and paddings of megabyte size
        exp = rng.choice([21, 21, 22])
        pl = 2 ** exp
        n = rng.randint(2, 3)
        tree = {"name": "bigpieces", "single": False, "dirs": [], "layout": "large-pieces",
                "files": [[f"f{k}.bin", rng.choice([pl + pl // 2, 3 * pl + 7, pl - 1, 3 << 20, (7 << 20) + 1, pl]),
                           rng.randrange(1 << 30)] for k in range(n)]}
    c = rng.random()
    if c < 0.012:
        # thousands of pieces: one damaged piece is a few hundredths of a percent of the payload
        exp, pl = 14, 16384
        tree = {"name": "manypieces", "single": False, "dirs": [], "layout": "many-pieces",
                "files": [["a-small", rng.choice([9000, 100, 16384]), rng.randrange(1 << 30)],
                          ["big.bin", (33 << 20) + rng.choice([0, 1, 5000]), rng.randrange(1 << 30)],
                          ["z-tail", rng.choice([100, 20000]), rng.randrange(1 << 30)]]}
        if single_ok and rng.random() < 0.3:
            tree = {"name": "big.bin", "single": True, "dirs": [], "layout": "many-pieces", "files": [tree["files"][1]]}
    elif c < 0.024 and not (damaged and False):
        # a long run of consecutive empty files between ordinary ones (marker files, placeholders)
        n = rng.randint(1100, 2000)
        tree = {"name": "markers", "single": False, "dirs": [], "layout": "empties-run",
                "files": [["a.bin", pl + 5, rng.randrange(1 << 30)]] +
                         [[f"m/{k:05d}.done", 0, 0] for k in range(n)] + [["z.bin", rng.choice([7, pl, 40000]), rng.randrange(1 << 30)]]}
    elif c < 0.04:
        # the smallest payloads there are: one or two bytes in total (next to empty files, or as a single file)
        n = rng.choice([1, 1, 2])
        tree = {"name": "tiny", "single": False, "dirs": [], "layout": "tiny-total",
                "files": [["e0", 0, 0], ["one", n, rng.randrange(1 << 30)], ["z-empty", 0, 0]][rng.choice([0, 1]):]}
        if single_ok and rng.random() < 0.5:
            tree = {"name": "one", "single": True, "dirs": [], "layout": "tiny-total", "files": [["one", n, rng.randrange(1 << 30)]]}
    elif c < 0.05:
        # a directory torrent whose only file is called like the torrent itself (data/data, README/README): in a v2
        # file tree it looks exactly like the single file 'data', only the payload tells them apart
        nm = rng.choice(["data", "README", "x", "my torrent", "Ünï"])
        tree = {"name": nm, "single": False, "dirs": [], "layout": "same-name-inside",
                "files": [[nm, rng.choice([1, 5, pl - 1, pl, pl + 1, 3 * pl + 7, 40000]), rng.randrange(1 << 30)]]}
    version = rng.choice([1, 2, 3])
    if 0.05 <= c < 0.06:
        # a v1 torrent of several pieces every one of whose hashes is valid multi-byte UTF-8
        exp, pl, version = 14, 16384, 1
        blocks = list(UTF8_PIECES)
        rng.shuffle(blocks)
        blocks = blocks[:rng.choice([2, 3])]
        if single_ok and rng.random() < 0.4:
            body = "".join(blocks) + UTF8_TAIL
            tree = {"name": "utf8.bin", "single": True, "dirs": [], "layout": "utf8-hash-multi",
                    "files": [["utf8.bin", len(body), "raw:" + body]]}
        else:
            tree = {"name": "utf8", "single": False, "dirs": [], "layout": "utf8-hash-multi",
                    "files": [[f"p{k}", 16384, "raw:" + b] for k, b in enumerate(blocks)] +
                             [["tail", len(UTF8_TAIL), "raw:" + UTF8_TAIL]]}
    if rng.random() < 0.5:
        enc = ["tool", rng.choice(TOOL_ROUTES[version])]
    else:
        enc = ["ref", rng.choice(REF_VARIANTS[version])]
    if 0.06 <= c < 0.08 and tree["layout"] not in ("large-pieces", "many-pieces", "utf8-hash-multi"):
        # a v1 metafile from another client with pieces SMALLER than 16 KiB (BEP 3 sets no minimum; only v2 does)
        version, exp = 1, rng.choice([12, 13, 13])
        enc = ["ref", rng.choice(REF_VARIANTS[1])]
        tree["layout"] += "+small-pieces"
    case = {"tree": tree, "pl_exp": exp, "version": version, "encoder": enc,
            "via": rng.choice(["lib", "lib", "cli", "cli-check"]), "form": rng.choice(["root", "parent"]),
            "order_seed": rng.randrange(1 << 20), "damage": [],
            "prelude": rng.randrange(1, 1 << 30) if rng.random() < 0.3 else None}
    if case["via"] == "lib" and rng.random() < 0.25:
        case["reuse"] = rng.choice(["after-intact", "after-intact", "after-partial"])
    if rng.random() < 0.2:
        # the content path as a user may type it: trailing / doubled separator, dot segment, relative to the cwd
        case["spell"] = rng.choice(["trailing-slash", "dot-segment", "double-sep", "relative"])
    if enc[0] == "tool" and rng.random() < 0.3:
        from .meta_family import gen_request
        steps = []
        for _ in range(rng.choice([1, 1, 2])):
            r = rng.choice(["lib", "cli"])
            steps.append({"route": r, "req": gen_request(rng, r), "omit_unnamed": False, "flags_first": False})
        case["edit_after"] = steps
    if damaged:
        files = tree["files"]
        nonempty = [i for i, f in enumerate(files) if f[1] > 0]
        nd = rng.choice([1, 1, 1, 2, 2, 3, 4])
        used = set()
        for _ in range(nd):
            i = rng.choice(nonempty)
            size = files[i][1]
            kinds = ["flip", "flip", "trunc", "remove"] if not tree["single"] else ["flip", "flip", "trunc"]
            kind = rng.choice(kinds)
            if (i in used and kind != "flip") or (i, "gone") in used:
                kind = "flip"
                if (i, "gone") in used:
                    continue
            if kind == "flip":
                pos = rng.choice([0, size - 1, rng.randrange(size), min(size - 1, (rng.randrange(size) // pl) * pl),
                                  max(0, min(size - 1, (rng.randrange(size) // pl) * pl - 1)),
                                  min(size - 1, (size // pl) * pl)])
                case["damage"].append({"file": i, "kind": "flip", "pos": pos})
                used.add(i)
            elif kind == "trunc":
                to = rng.choice([0, 1, size - 1, (rng.randrange(size) // pl) * pl, rng.randrange(size),
                                 (rng.randrange(size) // 16384) * 16384])
                to = max(0, min(size - 1, to))
                case["damage"].append({"file": i, "kind": "trunc", "to": to})
                used.add(i)
                used.add((i, "gone"))
            else:
                case["damage"].append({"file": i, "kind": "remove"})
                used.add(i)
                used.add((i, "gone"))
    return case


def _files_for_ref(tree):
    out = []
    for rel, size, cseed in tree["files"]:
        out.append((tuple(rel.split("/")), content(cseed, size)))
    return out


def make_metafile(case, scratch, root):
    """Returns (raw bytes, path) of the metafile for the intact tree, or (None, Outcome)."""
    tree, pl, ver = case["tree"], 2 ** case["pl_exp"], case["version"]
    mpath = os.path.join(scratch, "meta", "m.torrent")
    os.makedirs(os.path.dirname(mpath), exist_ok=True)
    kind, which = case["encoder"]
    if kind == "tool":
        oc = drive.create(which, root, mpath, piece_length=pl, progress=0)
        if not oc.ok:
            return None, oc
        if case.get("edit_after"):
            # pipeline: the metafile went through `edit` (and possibly `rename`) before it is rechecked
            from .meta_family import apply_edit
            for step in case["edit_after"]:
                eo = apply_edit(oc.outfile, step)
                if not eo.ok:
                    return None, eo
            with open(oc.outfile, "rb") as fd:
                oc.raw = fd.read()
        return oc.raw, oc.outfile
    import random
    rng = random.Random(case["order_seed"])
    kw = {}
    if which == "extra":
        kw.update(extra_info={"x-extra": [1, "two", {"k": b"\xff\xfe"}], "private": 0},
                  extra_top={"created by": "ref", "zzz": 1, "nodes": [["h", 1]]},
                  announce="http://t/a", url_list="http://single-string/ws")
    if tree["single"]:
        single = (tree["name"], content(tree["files"][0][2], tree["files"][0][1]))
        if ver == 2 and which == "with-length":
            kw["v2_single_length"] = True
        raw = rt.build(tree["name"], single=single, pl=pl, version=ver, **kw)
    else:
        files = _files_for_ref(tree)
        if ver == 1:
            if which == "unsorted":
                rng.shuffle(files)
            else:
                files.sort(key=lambda f: "/".join(f[0]))
            raw = rt.build(tree["name"], files=files, pl=pl, version=1, pad=(which == "padded"), **kw)
        else:
            raw = rt.build(tree["name"], files=files, pl=pl, version=ver,
                           trailing_pad=(which == "trailing-pad"), **kw)
    with open(mpath, "wb") as fd:
        fd.write(raw)
    return raw, mpath


def apply_damage(root, tree, damage):
    for d in damage:
        rel = tree["files"][d["file"]][0]
        p = root if tree["single"] else os.path.join(root, rel)
        if d["kind"] == "remove":
            if os.path.exists(p):
                os.remove(p)
        elif d["kind"] == "trunc":
            if os.path.exists(p):
                with open(p, "r+b") as fd:
                    fd.truncate(min(d["to"], os.path.getsize(p)))
        else:
            if os.path.exists(p) and os.path.getsize(p) > d["pos"]:
                with open(p, "r+b") as fd:
                    fd.seek(d["pos"])
                    b = fd.read(1)[0]
                    fd.seek(d["pos"])
                    fd.write(bytes([(b % 255) + 1]))


def _malform(raw, how):
    """A syntactically valid bencoding that is not a well-formed metafile (or not bencoding at all)."""
    from ..ref import bencode as rb
    if how == "truncated":
        return raw[:len(raw) // 2]
    top = rb.decode(raw)[0].py()
    info = top[b"info"]

    def leaves(tree):
        for k, v in tree.items():
            if isinstance(v, dict) and b"" in v and isinstance(v[b""], dict):
                yield v[b""]
            elif isinstance(v, dict):
                yield from leaves(v)
    if b"file tree" in info:
        lv = list(leaves(info[b"file tree"]))
        victim = lv[0]          # a nested leaf: the failure happens deep inside the walk
        victim.pop(b"pieces root" if how == "no-root" else b"length", None)
    elif b"files" in info:
        info[b"files"][-1].pop(b"length" if how != "no-root" else b"path", None)
    else:
        info.pop(b"length", None)
    return rb.encode(top)


def run_prelude(case, scratch):
    """Earlier, unjudged recheck activity in the same process: other torrents (well-formed, nested) and
    malformed metafiles whose recheck raises.  Nothing of it may leak into the judged recheck."""
    import random
    rng = random.Random(case["prelude"])
    recheck = drive.mod("recheck")
    for k in range(rng.choice([1, 2, 3])):
        pre = os.path.join(scratch, "pre", str(k))
        ver = rng.choice([1, 2, 3])
        files = [(("sub", "deep", "x.bin"), content(k + 1, rng.choice([5, 20000, 40000]))),
                 (("sub", "y"), content(k + 2, rng.choice([0, 16384, 7]))), (("top",), content(k + 3, 33000))]
        raw = rt.build("pre" + str(k), files=files, pl=16384, version=ver)
        how = rng.choice(["ok", "ok", "no-root", "no-length", "truncated", "missing-content"])
        if how not in ("ok", "missing-content"):
            raw = _malform(raw, how)
        os.makedirs(pre, exist_ok=True)
        mp = os.path.join(pre, "p.torrent")
        with open(mp, "wb") as fd:
            fd.write(raw)
        root = os.path.join(pre, "in", "pre" + str(k))
        if how != "missing-content":
            for comps, data in files:
                p = os.path.join(root, *comps)
                os.makedirs(os.path.dirname(p), exist_ok=True)
                with open(p, "wb") as fd:
                    fd.write(data)
        else:
            os.makedirs(os.path.join(pre, "in"), exist_ok=True)
        try:
            recheck.Checker(mp, rng.choice([root, os.path.join(pre, "in")])).results()
        except BaseException:  # noqa - whatever it raises is not judged here
            pass


def observe(case, scratch):
    """Shared driver.  Returns dict with reference + tool observations."""
    env.install_enum_order("shuffle", case["order_seed"])
    if case.get("prelude"):
        run_prelude(case, scratch)
    tree = case["tree"]
    base = os.path.join(scratch, "in")
    if case.get("same_name_parent"):
        base = os.path.join(scratch, "in", tree["name"])
    root = os.path.join(base, tree["name"])
    if tree["single"]:
        materialise(base, [[tree["name"], tree["files"][0][1], tree["files"][0][2]]])
    else:
        materialise(root, tree["files"], tree["dirs"], tree.get("links", ()))
    recheck = drive.mod("recheck")
    reach = env.Reach()
    reach.start({
        "Checker.iter_hashes": env.Tolerant(recheck).Checker.iter_hashes,
        "Checker.find_root": env.Tolerant(recheck).Checker.find_root,
        "Checker.check_paths": env.Tolerant(recheck).Checker.check_paths,
        "Checker.walk_file_tree": env.Tolerant(recheck).Checker.walk_file_tree,
        "FeedChecker.iter_pieces": env.Tolerant(recheck).FeedChecker.iter_pieces,
        "FeedChecker.extract": env.Tolerant(recheck).FeedChecker.extract,
        "FeedChecker._gen_padding": env.Tolerant(recheck).FeedChecker._gen_padding,
        "FeedChecker.__next__": env.Tolerant(recheck).FeedChecker.__next__,
        "HashChecker.__next__": env.Tolerant(recheck).HashChecker.__next__,
        "HashChecker.next_file": env.Tolerant(recheck).HashChecker.next_file,
        "HashChecker.process_current": env.Tolerant(recheck).HashChecker.process_current,
        "HashChecker.advance": env.Tolerant(recheck).HashChecker.advance,
        "HashChecker.Padder.__next__": env.Tolerant(recheck).HashChecker.Padder.__next__,
    })
    raw, mpath = make_metafile(case, scratch, root)
    obs = {"reach": None, "create_error": None}
    if raw is None:
        obs["create_error"] = {"exc": mpath.excname(), "tb": mpath.tb[-1200:]}
        obs["reach"] = reach.collect()
        return obs
    target = root if case["form"] == "root" else base
    if case.get("spell"):
        from .create_family import spelled
        target = spelled(case, target)
    reuse = case.get("reuse") if case["via"] == "lib" else None
    if reuse:
        # ONE Checker object: a first pass over the intact content (or one abandoned after its first piece), then the
        # damage is applied, then the judged pass on the same object
        obs["first_pass"], oc = drive.recheck_lib_reused(mpath, target, lambda: apply_damage(root, tree, case["damage"]),
                                                         partial=(reuse == "after-partial"))
        obs["reused_checker"] = reuse
    else:
        apply_damage(root, tree, case["damage"])
    ref = rt.recheck(raw, root)
    obs["ref"] = ref
    if reuse:
        pass
    elif case["via"] == "lib":
        oc = drive.recheck_lib(mpath, target)
    else:
        oc = drive.recheck_cli(mpath, target, "recheck" if case["via"] == "cli" else "check")
    obs["tool_exc"] = None if oc.ok else {"exc": oc.excname(), "tb": (oc.tb or "")[-1500:]}
    obs["tool_result"] = oc.ret if oc.ok else None
    obs["reach"] = reach.collect()
    return obs


def damage_sig(case):
    tree = case["tree"]
    pl = 2 ** case["pl_exp"]
    files = tree["files"]
    order = sorted(range(len(files)), key=lambda i: files[i][0])
    out = []
    for d in case["damage"]:
        i = d["file"]
        rank = order.index(i)
        posc = "first" if rank == 0 else "last" if rank == len(order) - 1 else "middle"
        prev_empty = rank > 0 and files[order[rank - 1]][1] == 0
        next_empty = rank + 1 < len(order) and files[order[rank + 1]][1] == 0
        size = files[i][1]
        if d["kind"] == "flip":
            pc = "p-first" if d["pos"] < pl else "p-last" if d["pos"] >= (max(size - 1, 0) // pl) * pl else "p-mid"
        elif d["kind"] == "trunc":
            pc = "to0" if d["to"] == 0 else "to-boundary" if d["to"] % pl == 0 else "to-mid"
        else:
            pc = "-"
        out.append([d["kind"], posc, pc, "E<" if prev_empty else "", ">E" if next_empty else "",
                    "small" if size < pl else "big"])
    return sorted(out)


def _common_result(case, obs, viol, counters, sample_extra=None):
    ref = obs.get("ref")
    if case.get("prelude"):
        counters["cases_with_earlier_rechecks_in_process"] = 1
    if case.get("edit_after"):
        counters["cases_with_edited_metafile"] = 1
    if case["tree"]["layout"] == "large-pieces":
        counters["cases_with_megabyte_pieces"] = 1
    if case.get("spell"):
        counters["content_path_spelled_cases"] = 1
    if case.get("reuse") and case["via"] == "lib":
        counters["checker_object_reused_cases"] = 1
    if case["tree"]["layout"] == "many-pieces":
        counters["cases_with_thousands_of_pieces"] = 1
    if case["tree"]["layout"] == "utf8-hash-multi":
        import hashlib as _h
        for b in UTF8_PIECES + [UTF8_TAIL]:
            assert len(_h.sha1(b.encode()).digest().decode("utf-8")) < 20      # raises if a constant is wrong
        counters["multi_piece_utf8_hash_cases"] = 1
    if case["tree"]["layout"] == "empties-run":
        counters["cases_with_long_runs_of_empty_files"] = 1
    sample = {"files": [[f[0], f[1]] for f in case["tree"]["files"][:8]], "piece_length": 2 ** case["pl_exp"],
              "version": case["version"], "encoder": case["encoder"], "via": case["via"], "form": case["form"],
              "damage": case["damage"], "tool_result": obs.get("tool_result"),
              "tool_exc": (obs.get("tool_exc") or {}).get("exc"),
              "reference_percent": float(ref["fraction"]) if ref and ref["fraction"] is not None else None,
              "reference_pieces": len(ref["verdicts"]) if ref else None,
              "reference_failing_pieces": sum(1 for ok, _ in ref["verdicts"] if not ok) if ref else None}
    if sample_extra:
        sample.update(sample_extra)
    return {"violations": viol, "counters": counters, "reach": obs["reach"], "sample": sample}


def _feature_flags(case):
    tree = case["tree"]
    files = sorted(tree["files"])
    sizes = [f[1] for f in files]
    return {"last_empty": sizes[-1] == 0, "has_empty": 0 in sizes, "nfiles": len(sizes)}


# ---------------------------------------------------------------------- C04
class C04:
    rule_extra = ('Later additions: content path spelled with trailing / doubled separators, dot segments or relative to the cwd (20 %), piece lengths of 2-4 MiB with files of several MiB (3 %), metafiles edited after creation, earlier failing rechecks in the same process.')
    id = "C04"
    quick, thorough = 2000, 40000
    timeout = 120
    rule = ("case = tree x piece length x version x encoder (tool creators / reference encoder variants) x 1-4 "
            "damages (flip / truncate / remove at boundary-biased positions) x recheck route (Checker, CLI "
            "recheck|check) x content path form (root/parent); judged only when the reference re-checker finds "
            ">= 1 failing piece; oracle: reported value < 100 (an exception is not a report of 100 and is left to "
            "C16); distinct by (version, encoder kind, damage signature incl. position class and empty "
            "neighbours, layout)")
    required = ("damaged_judged_v1", "damaged_judged_v2", "damaged_judged_v3", "damage_next_to_empty",
                "cases_cli", "cases_lib")
    assumptions = ("file contents contain no 0x00 byte, so no damaged region is all-zero",
                   "reference re-checker (ref/torrent.py) is correct")

    @staticmethod
    def gen(rng, tier, i):
        return gen_case(rng, tier, damaged=True)

    @staticmethod
    def run(case, scratch):
        obs = observe(case, scratch)
        viol, counters = [], {}
        if obs["create_error"]:
            return {"inconclusive": "metafile creation failed: " + obs["create_error"]["exc"],
                    "traceback": obs["create_error"]["tb"]}
        ref = obs["ref"]
        failing = sum(1 for ok, _ in ref["verdicts"] if not ok)
        judged = failing > 0
        if judged:
            counters[f"damaged_judged_v{case['version']}"] = 1
            counters["cases_cli" if case["via"] != "lib" else "cases_lib"] = 1
            dsig = damage_sig(case)
            if any(d[3] or d[4] for d in dsig):
                counters["damage_next_to_empty"] = 1
            if obs["tool_exc"] is None:
                r = obs["tool_result"]
                if not isinstance(r, (int, float)) or r >= 100:
                    viol.append(oracles.V("reported-100-for-damaged", reported=r,
                                          reference=float(ref["fraction"]), failing_pieces=failing,
                                          flags=_feature_flags(case)))
            else:
                counters["tool_raised"] = 1
        res = _common_result(case, obs, viol, counters)
        res["nontrivial"] = judged
        res["sig"] = [case["version"], case["encoder"][0], damage_sig(case), case["tree"]["layout"]]
        return res

    @staticmethod
    def classify(case, v):
        return None


# ---------------------------------------------------------------------- C05
class C05:
    rule_extra = C04.rule_extra
    id = "C05"
    quick, thorough = 2000, 40000
    timeout = 120
    rule = ("case = intact tree x piece length x version x encoder (four tool creators, CLI, reference encoder "
            "variants: v1 unsorted order, v1 BEP 47 padding, v2 single file without info.length, hybrid with / "
            "without trailing pad, extra keys) x route x content path form (root and parent both judged); oracle: "
            "result == 100; non-trivial when > 1 file or a partial last piece; distinct by (encoder, version, "
            "layout, size classes, form, pl exponent)")
    required = ("judged_root", "judged_parent", "ref_encoded_v1", "ref_encoded_v2", "ref_encoded_v3",
                "tool_encoded", "cases_with_empty")
    assumptions = ("reference encoder (ref/torrent.py) is specification conformant",)

    @staticmethod
    def gen(rng, tier, i):
        case = gen_case(rng, tier, damaged=False)
        case["form"] = "both"
        c = rng.random()
        if c < 0.03:
            # adversarial: the single SHA-1 piece hash is valid UTF-8 (a lenient decoder returns text, not bytes)
            raw = "raw:" + UTF8_SHA1_CONTENT
            case["tree"] = {"name": "u.bin", "single": True, "files": [["u.bin", len(raw) - 4, raw]], "dirs": [],
                            "layout": "utf8-hash"}
            case["version"] = 1
            case["pl_exp"] = max(case["pl_exp"], 14)          # (the small-pieces class may have chosen 4 / 8 KiB)
            case["encoder"] = rng.choice([["tool", "TorrentFile"], ["ref", "plain"]])
            if rng.random() < 0.5:
                # same for the SHA-256 pieces root of a one-block file (v2 / hybrid), alone or inside a directory
                raw = "raw:" + UTF8_SHA256_CONTENT
                if rng.random() < 0.5:
                    case["tree"]["files"] = [["u.bin", len(raw) - 4, raw]]
                else:
                    case["tree"] = {"name": "ud", "single": False, "dirs": [], "layout": "utf8-hash",
                                    "files": [["a", 20000, 5], ["u.bin", len(raw) - 4, raw], ["z", 7, 6]]}
                case["version"] = rng.choice([2, 3])
                case["encoder"] = rng.choice([["tool", TOOL_ROUTES[case["version"]][0]], ["ref", "plain"]])
        elif c < 0.08:
            case["same_name_parent"] = True     # .../<name>/<name>/...: the parent is called like the payload
        return case

    @staticmethod
    def run(case, scratch):
        viol, counters = [], {}
        obs_all = {}
        first = None
        for form in ("root", "parent"):
            c = dict(case, form=form)
            obs = observe(c, os.path.join(scratch, form))
            first = first or obs
            if obs["create_error"]:
                if case["encoder"][0] == "tool":
                    return {"inconclusive": "metafile creation failed: " + obs["create_error"]["exc"],
                            "traceback": obs["create_error"]["tb"]}
            ref = obs["ref"]
            if ref["fraction"] != 100:
                return {"inconclusive": "reference does not verify its own/the tool's metafile",
                        "traceback": str(case)}
            counters["judged_" + form] = 1
            model = None
            if case.get("same_name_parent") and form == "parent":
                # defect model of the known finding: the parent (named like the payload) is taken for the payload
                # root, so every listed file is looked up one level too high
                if case["tree"]["single"]:
                    model = "IsADirectoryError"
                else:
                    wrong_root = os.path.dirname(os.path.join(scratch, form, "in", case["tree"]["name"], case["tree"]["name"]))
                    fr = rt.recheck(open(os.path.join(scratch, form, "meta", "m.torrent"), "rb").read(), wrong_root)["fraction"]
                    model = float(fr) if fr is not None else None
                    # a listed relative path that is a directory one level too high cannot be opened as a file
                    if any(os.path.isdir(os.path.join(wrong_root, f[0])) for f in case["tree"]["files"]):
                        model = "IsADirectoryError"
            if obs["tool_exc"] is not None:
                viol.append(oracles.V("recheck-raised-on-intact", form=form, layout=case["tree"]["layout"],
                                      same_name_parent=bool(case.get("same_name_parent")),
                                      matches_same_name_parent_model=(model == obs["tool_exc"]["exc"]), **obs["tool_exc"]))
            elif obs["tool_result"] != 100:
                viol.append(oracles.V("intact-not-100", form=form, reported=obs["tool_result"],
                                      flags=_feature_flags(case), encoder=case["encoder"], version=case["version"],
                                      layout=case["tree"]["layout"], same_name_parent=bool(case.get("same_name_parent")),
                                      matches_same_name_parent_model=(isinstance(model, float) and
                                                                      abs(model - obs["tool_result"]) < 1e-9)))
            obs_all[form] = obs.get("tool_result")
        if case["encoder"][0] == "ref":
            counters[f"ref_encoded_v{case['version']}"] = 1
        else:
            counters["tool_encoded"] = 1
        if any(f[1] == 0 for f in case["tree"]["files"]):
            counters["cases_with_empty"] = 1
        if case["tree"]["layout"] == "utf8-hash":
            import hashlib
            hashlib.sha1(UTF8_SHA1_CONTENT.encode()).digest().decode("utf-8")     # raises if the constant is wrong
            hashlib.sha256(UTF8_SHA256_CONTENT.encode()).digest().decode("utf-8")
            counters["utf8_valid_hash_cases"] = 1
        if case.get("same_name_parent"):
            counters["same_name_parent_cases"] = 1
        pl = 2 ** case["pl_exp"]
        total = sum(f[1] for f in case["tree"]["files"])
        res = _common_result(case, first, viol, counters, {"results_by_form": obs_all})
        res["evaluations"] = 2
        res["nontrivial"] = len(case["tree"]["files"]) > 1 or total % pl != 0
        res["sig"] = [case["encoder"], case["version"], gen.tree_sig(case["tree"], pl), case["pl_exp"], case["via"],
                      bool(case.get("same_name_parent"))]
        return res

    @staticmethod
    def classify(case, v):
        d = v.get("detail", {})
        if case.get("same_name_parent") and d.get("form") == "parent" and d.get("matches_same_name_parent_model") is True:
            return "recheck-parent-named-like-payload"
        return None


# ---------------------------------------------------------------------- C16
class C16:
    rule_extra = C04.rule_extra + (" Class '+zero-island' (6 % of the directory cases): one file holds an island of zero bytes covering at least "
                                   "one whole piece and is removed or cut off before / inside / at the end of the island; the absent all-zero "
                                   "pieces, read as zeros, hash to the recorded values and count towards the percentage.")
    id = "C16"
    quick, thorough = 2000, 40000
    timeout = 120
    rule = ("case = as C04 (0-4 simultaneous damages; 15% intact); oracle: |reported - reference| < 1e-9 where "
            "reference = 100 * bytes in verifying pieces / all bytes, computed piece by piece with absent data "
            "read as zeros; non-trivial when >= 1 damage; distinct by (version, encoder kind, damage signature, "
            "number of damages, layout)")
    required = ("compared_v1", "compared_v2", "compared_v3", "multi_damage_cases", "partial_results",
                "absent_all_zero_pieces_cases")
    assumptions = C04.assumptions

    @staticmethod
    def gen(rng, tier, i):
        # (zero-filled payload is NOT generated here: the quantifier - 'damage sets as in C04' - excludes damage to
        # regions whose described bytes are all zero, where 'absent' and 'present' cannot be told apart by hash)
        case = gen_case(rng, tier, damaged=rng.random() > 0.15)
        tree = case["tree"]
        if rng.random() < 0.06 and not tree["single"] and len(tree["files"]) <= 40 and case["pl_exp"] <= 17 \
                and not tree.get("links"):
            # sparse image: one file holds an island of zero bytes covering at least one whole piece, with ordinary
            # bytes before and after it.  The file is removed or cut off before the island - a region whose described
            # bytes are NOT all zero, so inside the quantifier - and the absent island, read as zeros, still hashes to
            # the recorded values: those pieces count
            pl = 2 ** case["pl_exp"]
            i = rng.randrange(len(tree["files"]))
            head = rng.choice([0, 1, pl, pl + 77, 2 * pl])
            island = rng.choice([2, 3, 4]) * pl + rng.choice([0, 0, 500])
            tail = rng.choice([pl + 1, 2 * pl, 3 * pl + 9, 40])
            ztail = rng.random() < 0.3
            if ztail:
                # the island runs to the end of the file (image with an unused tail, final piece short): the file as a
                # whole is not all zero, it is removed or cut off inside its ordinary head
                head, tail = rng.choice([1, pl, pl + 77, 2 * pl]), 0
                island = rng.choice([1, 2, 3]) * pl + rng.choice([1, 500, 16384, 16385, pl // 2, pl - 1])
            zlast = rng.random() < 0.3
            if zlast:
                # the zeros start inside the last-but-one piece of the file and run to its end (the short final piece is
                # all zero); the file is cut inside the ordinary part of that last-but-one piece, so exactly the final
                # piece is wholly absent
                q = rng.choice([1, 2, 3])
                r = rng.choice([1, 500, 16384, pl // 2, pl // 2 + 1, pl - 1])
                head = (q - 1) * pl + rng.choice([2, 77, pl // 2, pl])
                island, tail, ztail = q * pl + r - head, 0, False
            tree["files"][i][1] = head + island + tail
            tree["files"][i][2] = "zmid:%d:%d:%d" % (rng.randrange(1 << 30), head, head + island)
            tree["layout"] += "+zero-island"
            case["damage"] = [d for d in case["damage"] if d["file"] != i]
            if zlast:
                case["damage"].append({"file": i, "kind": "trunc", "to": rng.randint((q - 1) * pl + 1, head - 1)})
            elif ztail:
                case["damage"].append(rng.choice([{"file": i, "kind": "remove"},
                                                  {"file": i, "kind": "trunc", "to": rng.choice([0, head - 1, head // 2])}]))
            elif rng.random() < 0.6:
                # (every cut removes the ordinary bytes after the island, whether it lies before, inside or at the end of it)
                case["damage"].append({"file": i, "kind": "trunc", "to": max(0, rng.choice(
                    [0, 1, head - 1, head, head // 2, head + 1, head + island // 2, head + pl, head + island - 1, head + island]))})
            else:
                case["damage"].append({"file": i, "kind": "remove"})
        return case

    @staticmethod
    def run(case, scratch):
        obs = observe(case, scratch)
        viol, counters = [], {}
        if "+zero-island" in case["tree"]["layout"]:
            counters["absent_all_zero_pieces_cases"] = 1
        if obs["create_error"]:
            return {"inconclusive": "metafile creation failed: " + obs["create_error"]["exc"],
                    "traceback": obs["create_error"]["tb"]}
        ref = obs["ref"]
        counters[f"compared_v{case['version']}"] = 1
        if len(case["damage"]) > 1:
            counters["multi_damage_cases"] = 1
        if ref["fraction"] is not None and 0 < ref["fraction"] < 100:
            counters["partial_results"] = 1
        if obs["tool_exc"] is not None:
            viol.append(oracles.V("recheck-raised", **obs["tool_exc"]))
        else:
            r = obs["tool_result"]
            exp = float(ref["fraction"])
            if not isinstance(r, (int, float)) or abs(r - exp) >= 1e-9:
                viol.append(oracles.V("percentage-mismatch", reported=r, reference=exp,
                                      ref_pieces=len(ref["verdicts"]),
                                      ref_failing=[i for i, (ok, _) in enumerate(ref["verdicts"]) if not ok][:20],
                                      flags=_feature_flags(case)))
        res = _common_result(case, obs, viol, counters)
        res["nontrivial"] = len(case["damage"]) >= 1
        res["sig"] = [case["version"], case["encoder"][0], damage_sig(case), case["tree"]["layout"]]
        return res

    @staticmethod
    def classify(case, v):
        return None
