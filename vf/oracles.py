"""Oracles over written metafiles: judge raw metafile bytes against the tree on
disk using the reference models only."""
import os

from .monitors.env import _orig_scandir
from .ref import bencode as rb
from .ref.hashing import BLOCK, bep52, v1_pieces
from .ref.torrent import v1_entries, v2_leaves


def V(kind, **detail):
    return {"kind": kind, "detail": detail}


# How directory symbolic links INSIDE a content tree are read by disk_files: "nofollow" (a link is neither a file nor
# a directory of the payload) or "follow" (what the link leads to is content under the link's name - what the
# creators do).  The statements do not say which; judges that generate such links accept either reading
# (both_link_readings), for all other trees the two coincide.
LINK_READING = ["nofollow"]


def both_link_readings(check, *args):
    """Violations of `check` under the reading that fits best: none if either reading is satisfied, otherwise those
    under the 'follow' reading."""
    old = LINK_READING[0]
    try:
        LINK_READING[0] = "follow"
        v_follow = check(*args)
        if not v_follow:
            return []
        LINK_READING[0] = "nofollow"
        v_no = check(*args)
        return [] if not v_no else v_follow
    finally:
        LINK_READING[0] = old


def disk_files(root):
    """{relpath components tuple(bytes): bytes content} for a directory; for a
    file: {(): content}."""
    out = {}
    follow = LINK_READING[0] == "follow"
    if os.path.isfile(root):
        with open(root, "rb") as fd:
            out[()] = fd.read()
        return out

    def walk(d, prefix):
        with _orig_scandir(d) as it:
            ents = sorted(it, key=lambda e: e.name)
        for e in ents:
            comps = prefix + (os.fsencode(e.name),)
            if e.is_dir(follow_symlinks=follow) and len(comps) < 80:
                walk(e.path, comps)
            elif e.is_file(follow_symlinks=follow):
                with open(e.path, "rb") as fd:
                    out[comps] = fd.read()
    walk(root, ())
    return out


def decode_meta(raw):
    top, diags = rb.decode(raw)
    if top.kind != "dict" or top.get(b"info") is None or top.get(b"info").kind != "dict":
        raise rb.BencodeError("no info dict")
    info = top.get(b"info")
    bad = _shape_problem(info)
    if bad:
        # lengths that are negative or no integers, a files list without paths ...: what the tool wrote is no metafile
        # the reference computations could be applied to - reported as a violation by every caller, never a crash here
        raise rb.BencodeError("malformed info dictionary: " + bad)
    return top, info, diags


def _shape_problem(info):
    def nonneg(n):
        return n is not None and n.kind == "int" and n.value >= 0
    pl = info.get(b"piece length")
    if pl is not None and not (pl.kind == "int" and pl.value > 0):
        return "piece length is not a positive integer"
    if info.get(b"length") is not None and not nonneg(info.get(b"length")):
        return "length is not a non-negative integer"
    files = info.get(b"files")
    if files is not None:
        if files.kind != "list":
            return "files is not a list"
        for f in files.value:
            if f.kind != "dict" or not nonneg(f.get(b"length")):
                return "a files entry has no non-negative integer length"
            pth = f.get(b"path")
            if pth is None or pth.kind != "list" or any(c.kind != "str" for c in pth.value):
                return "a files entry has no path list of strings"
    pcs = info.get(b"pieces")
    if pcs is not None and pcs.kind != "str":
        return "pieces is not a string"

    def walk(node, depth=0):
        if node.kind != "dict" or depth > 200:
            return "file tree node is not a dictionary"
        for k, _, v in node.value:
            if k == b"":
                if v.kind != "dict" or not nonneg(v.get(b"length")):
                    return "a file tree leaf has no non-negative integer length"
            else:
                r = walk(v, depth + 1)
                if r:
                    return r
        return None
    ft = info.get(b"file tree")
    if ft is not None:
        return walk(ft)
    return None


def _int(node, what, viol):
    if node is None or node.kind != "int":
        viol.append(V("bad-field", field=what))
        return None
    return node.value


# --------------------------------------------------------------------- C01
def check_v1(raw, root, counters=None):
    """BEP 3 conformance of a v1 metafile (no alignment requested)."""
    viol = []
    c = counters if counters is not None else {}
    try:
        top, info, _ = decode_meta(raw)
    except rb.BencodeError as e:
        return [V("undecodable", error=str(e))]
    disk = disk_files(root)
    pl = _int(info.get(b"piece length"), "piece length", viol)
    pieces = info.get(b"pieces")
    if pl is None or pl <= 0 or pieces is None or pieces.kind != "str":
        return viol + [V("bad-structure")]
    pieces = pieces.value
    if () in disk:  # single file
        data = disk[()]
        if b"files" in info:
            viol.append(V("single-file-has-files"))
        ln = _int(info.get(b"length"), "length", viol)
        if ln is not None and ln != len(data):
            viol.append(V("length-mismatch", recorded=ln, disk=len(data)))
        exp = v1_pieces(data, pl)
        c["pieces_compared"] = c.get("pieces_compared", 0) + len(exp) // 20
        if pieces != exp:
            viol.append(V("pieces-mismatch", **_first_diff(pieces, exp, 20)))
        return viol
    if b"files" not in info:
        return viol + [V("directory-without-files")]
    try:
        entries = v1_entries(info)
    except Exception as e:  # malformed entry
        return viol + [V("bad-files-entry", error=repr(e))]
    listed = {}
    stream = bytearray()
    for comps, length, is_pad in entries:
        if is_pad:
            stream += bytes(length)
            continue
        listed[comps] = listed.get(comps, 0) + 1
        if comps not in disk:
            viol.append(V("listed-file-not-on-disk", path=comps))
            stream += bytes(length)
            continue
        if length != len(disk[comps]):
            viol.append(V("length-mismatch", path=comps, recorded=length, disk=len(disk[comps])))
        stream += disk[comps]
    for comps, n in listed.items():
        if n > 1:
            viol.append(V("file-listed-twice", path=comps, times=n))
    for comps in disk:
        if comps not in listed:
            viol.append(V("file-not-listed", path=comps, size=len(disk[comps])))
    exp = v1_pieces(bytes(stream), pl)
    c["pieces_compared"] = c.get("pieces_compared", 0) + len(exp) // 20
    if pieces != exp:
        viol.append(V("pieces-mismatch", **_first_diff(pieces, exp, 20)))
    return viol


def _first_diff(got, exp, n):
    got, exp = bytes(got), bytes(exp)
    d = {"recorded_hashes": len(got) / n, "expected_hashes": len(exp) / n}
    for i in range(0, min(len(got), len(exp)), n):
        if got[i:i + n] != exp[i:i + n]:
            d["first_bad_piece"] = i // n
            break
    return d


def straddle_stats(sizes, pl):
    """Number of pieces that contain bytes of >= 2 and >= 3 files."""
    two = three = 0
    bounds = []
    off = 0
    for s in sizes:
        if s:
            bounds.append((off, off + s))
        off += s
    for p0 in range(0, off, pl):
        p1 = min(off, p0 + pl)
        n = sum(1 for a, b in bounds if a < p1 and b > p0)
        two += n >= 2
        three += n >= 3
    return two, three


# --------------------------------------------------------------------- C02
def check_v2(raw, root, counters=None):
    """BEP 52 conformance of the v2 part (file tree, roots, piece layers)."""
    viol = []
    c = counters if counters is not None else {}
    try:
        top, info, _ = decode_meta(raw)
    except rb.BencodeError as e:
        return [V("undecodable", error=str(e))]
    disk = disk_files(root)
    pl = _int(info.get(b"piece length"), "piece length", viol)
    tree = info.get(b"file tree")
    layers = top.get(b"piece layers")
    if pl is None or pl < BLOCK or pl & (pl - 1) or tree is None or tree.kind != "dict" \
            or layers is None or layers.kind != "dict":
        return viol + [V("bad-structure", pl=pl, tree=tree is not None, layers=layers is not None)]
    mv = info.get(b"meta version")
    if mv is None or mv.value != 2:
        viol.append(V("meta-version-not-2"))
    single = () in disk
    if single:
        name = info.get(b"name").value if info.get(b"name") is not None else None
        disk = {(name,): disk[()]}
    leaves = list(v2_leaves(tree))
    seen = set()
    expected_layers = {}
    for comps, leaf in leaves:
        if comps in seen:
            viol.append(V("leaf-twice", path=comps))
        seen.add(comps)
        if comps not in disk:
            viol.append(V("leaf-not-on-disk", path=comps))
            continue
        data = disk[comps]
        ln = _int(leaf.get(b"length"), "length", viol)
        if ln != len(data):
            viol.append(V("length-mismatch", path=comps, recorded=ln, disk=len(data)))
        proot = leaf.get(b"pieces root")
        if not data:
            c["empty_leaves"] = c.get("empty_leaves", 0) + 1
            if proot is not None:
                viol.append(V("empty-file-has-root", path=comps))
            continue
        if proot is None or proot.kind != "str":
            viol.append(V("missing-root", path=comps))
            continue
        eroot, elayer = bep52(data, pl)
        c["roots_compared"] = c.get("roots_compared", 0) + 1
        nb = -(-len(data) // BLOCK)
        if len(data) % BLOCK:
            c["rule_short_last_block"] = c.get("rule_short_last_block", 0) + 1
        if len(data) <= pl and nb & (nb - 1):
            c["rule_small_file_pow2_pad"] = c.get("rule_small_file_pow2_pad", 0) + 1
        if len(data) > pl:
            npc = -(-len(data) // pl)
            if nb % (pl // BLOCK):
                c["rule_short_last_piece"] = c.get("rule_short_last_piece", 0) + 1
            if npc & (npc - 1):
                c["rule_piece_count_not_pow2"] = c.get("rule_piece_count_not_pow2", 0) + 1
        if proot.value != eroot:
            viol.append(V("root-mismatch", path=comps, size=len(data), pl=pl))
        if len(data) > pl:
            expected_layers[eroot] = elayer
    for comps in disk:
        if comps not in seen:
            viol.append(V("file-not-in-tree", path=comps))
    got = {}
    for k, _, v in layers.value:
        if k in got:
            viol.append(V("layer-key-twice", key=k))
        got[k] = v.value if v.kind == "str" else None
    c["layers_compared"] = c.get("layers_compared", 0) + len(expected_layers)
    for k, lay in expected_layers.items():
        if k not in got:
            viol.append(V("layer-missing", root=k))
        elif got[k] != lay:
            viol.append(V("layer-mismatch", root=k, recorded_hashes=len(got[k] or b"") / 32,
                          expected_hashes=len(lay) / 32))
    for k in got:
        if k not in expected_layers:
            viol.append(V("layer-spurious", root=k))
    return viol


# --------------------------------------------------------------------- C03
def check_hybrid_views(raw, root, counters=None):
    """v1 view vs v2 view of a hybrid metafile."""
    viol = []
    c = counters if counters is not None else {}
    try:
        top, info, _ = decode_meta(raw)
    except rb.BencodeError as e:
        return [V("undecodable", error=str(e))]
    disk = disk_files(root)
    pl = _int(info.get(b"piece length"), "piece length", viol)
    tree = info.get(b"file tree")
    pieces = info.get(b"pieces")
    if pl is None or tree is None or pieces is None or pieces.kind != "str":
        return viol + [V("bad-structure")]
    pieces = pieces.value
    leaves = [(comps, leaf.get(b"length").value) for comps, leaf in v2_leaves(tree)]
    if () in disk:
        data = disk[()]
        c["single_cases"] = c.get("single_cases", 0) + 1
        if b"files" in info:
            viol.append(V("single-file-has-files"))
        ln = _int(info.get(b"length"), "length", viol)
        if ln is not None and ln != len(data):
            viol.append(V("length-mismatch", recorded=ln, disk=len(data)))
        if len(leaves) != 1 or leaves[0][1] != len(data):
            viol.append(V("tree-vs-length", leaves=leaves))
        exp = v1_pieces(data, pl)
        c["pieces_compared"] = c.get("pieces_compared", 0) + len(exp) // 20
        if pieces != exp:
            viol.append(V("single-pieces-mismatch", size=len(data), pl=pl,
                          zero_extended=(pieces == v1_pieces(data + bytes((-len(data)) % pl), pl)),
                          **_first_diff(pieces, exp, 20)))
        return viol
    if b"files" not in info:
        return viol + [V("directory-without-files")]
    entries = v1_entries(info)
    nonpad = [(comps, ln) for comps, ln, p in entries if not p]
    if nonpad != leaves:
        viol.append(V("files-vs-tree-order-or-length", files=nonpad[:8], tree=leaves[:8]))
    stream = bytearray()
    files_node = info.get(b"files").value
    for idx, (comps, length, is_pad) in enumerate(entries):
        if is_pad:
            c["pad_entries_checked"] = c.get("pad_entries_checked", 0) + 1
            stream += bytes(length)
            continue
        attr = files_node[idx].get(b"attr")
        if length and len(stream) % pl:
            viol.append(V("file-not-piece-aligned", path=comps, offset=len(stream), pl=pl))
        data = disk.get(comps)
        if data is None:
            viol.append(V("listed-file-not-on-disk", path=comps))
            data = bytes(length)
        elif len(data) != length:
            viol.append(V("length-mismatch", path=comps, recorded=length, disk=len(data)))
        stream += data
    # entries that look like padding by path but are not marked
    for idx, f in enumerate(files_node):
        path = f.get(b"path")
        if path is not None and path.value and path.value[0].value == b".pad":
            attr = f.get(b"attr")
            if attr is None or b"p" not in attr.value:
                viol.append(V("pad-entry-unmarked", index=idx))
    exp = v1_pieces(bytes(stream), pl)
    c["pieces_compared"] = c.get("pieces_compared", 0) + len(exp) // 20
    if pieces != exp:
        viol.append(V("pieces-mismatch", **_first_diff(pieces, exp, 20)))
    return viol


# --------------------------------------------------------------------- C15
def check_aligned_v1(raw, root, counters=None):
    viol = []
    c = counters if counters is not None else {}
    try:
        top, info, _ = decode_meta(raw)
    except rb.BencodeError as e:
        return [V("undecodable", error=str(e))]
    disk = disk_files(root)
    pl = _int(info.get(b"piece length"), "piece length", viol)
    pieces = info.get(b"pieces")
    if pl is None or pieces is None:
        return viol + [V("bad-structure")]
    pieces = pieces.value
    if () in disk:
        data = disk[()]
        c["single_cases"] = c.get("single_cases", 0) + 1
        ln = _int(info.get(b"length"), "length", viol)
        if ln is not None and ln != len(data):
            viol.append(V("length-mismatch", recorded=ln, disk=len(data)))
        exp = v1_pieces(data, pl)
        if pieces != exp:
            viol.append(V("single-pieces-mismatch", size=len(data), pl=pl,
                          zero_extended=(pieces == v1_pieces(data + bytes((-len(data)) % pl), pl)),
                          **_first_diff(pieces, exp, 20)))
        return viol
    if b"files" not in info:
        return viol + [V("directory-without-files")]
    entries = v1_entries(info)
    files_node = info.get(b"files").value
    stream = bytearray()
    listed = set()
    total = 0
    for idx, (comps, length, is_pad) in enumerate(entries):
        total += length
        if is_pad:
            c["pad_entries_checked"] = c.get("pad_entries_checked", 0) + 1
            gap = (-len(stream)) % pl
            if length != gap:
                viol.append(V("pad-length-not-gap", index=idx, length=length, gap=gap, offset=len(stream), pl=pl))
            stream += bytes(length)
            continue
        path = files_node[idx].get(b"path")
        if path is not None and path.value and path.value[0].value == b".pad" and comps not in disk:
            viol.append(V("pad-entry-unmarked", index=idx))
            stream += bytes(length)
            continue
        c["offsets_checked"] = c.get("offsets_checked", 0) + 1
        if len(stream) % pl:
            viol.append(V("file-not-piece-aligned", path=comps, offset=len(stream), pl=pl))
        listed.add(comps)
        data = disk.get(comps)
        if data is None:
            viol.append(V("listed-file-not-on-disk", path=comps))
            data = bytes(length)
        elif len(data) != length:
            viol.append(V("length-mismatch", path=comps, recorded=length, disk=len(data)))
        stream += data
    for comps in disk:
        if comps not in listed:
            viol.append(V("file-not-listed", path=comps))
    exp = v1_pieces(bytes(stream), pl)
    c["pieces_compared"] = c.get("pieces_compared", 0) + len(exp) // 20
    if len(pieces) // 20 != -(-total // pl):
        viol.append(V("piece-count-vs-listed-lengths", recorded=len(pieces) / 20, listed_bytes=total, pl=pl))
    if pieces != exp:
        viol.append(V("pieces-mismatch", **_first_diff(pieces, exp, 20)))
    return viol
