"""Reference torrent encoder (independent, spec conformant) and reference
re-checker.  Works on in-memory payload descriptions:

    files = [ (("dir","name"), b"bytes"), ... ]     # multi-file, in the order wanted
    single = ("name", b"bytes")
"""
import os
from fractions import Fraction
from hashlib import sha1, sha256

from . import bencode as rb
from .hashing import BLOCK, bep52, v1_pieces


def _tree_insert(tree, comps, leaf):
    d = tree
    for c in comps[:-1]:
        d = d.setdefault(c, {})
    d[comps[-1]] = {"": leaf}


def _tree_order(files):
    """BEP 52 order = sorted by path components as raw bytes (dict order)."""
    return sorted(files, key=lambda f: [c.encode() for c in f[0]])


def build(name, files=None, single=None, pl=16384, version=1, v1_order=None,
          pad=False, trailing_pad=False, v2_single_length=False, extra_info=None,
          extra_top=None, announce=None, announce_list=None, url_list=None,
          httpseeds=None, private=False, source=None, comment=None):
    """Return the canonical bencoding of a metafile.

    version: 1, 2 or 3 (hybrid).
    v1_order: for version 1, explicit order of files (list of path tuples) or
        None for the order given.
    pad: version 1 only - insert BEP 47 padding entries so files are aligned.
    trailing_pad: hybrid - also append a padding entry after the last file.
    v2_single_length: write info.length for single-file v2 (non-standard; the
        tool does it), default off = what the specification says.
    """
    info = {"name": name, "piece length": pl}
    top = {"info": info}
    if private:
        info["private"] = 1
    if source is not None:
        info["source"] = source
    if comment is not None:
        info["comment"] = comment
    if extra_info:
        info.update(extra_info)
    if extra_top:
        top.update(extra_top)
    if announce is not None:
        top["announce"] = announce
    if announce_list is not None:
        top["announce-list"] = announce_list
    if url_list is not None:
        top["url-list"] = url_list
    if httpseeds is not None:
        top["httpseeds"] = httpseeds

    if version in (2, 3):
        info["meta version"] = 2
        layers = {}
        tree = {}
        if single is not None:
            flist = [((single[0],), single[1])]
        else:
            flist = _tree_order(files)
        for comps, data in flist:
            leaf = {"length": len(data)}
            if data:
                root, layer = bep52(data, pl)
                leaf["pieces root"] = root
                if len(data) > pl:
                    layers[root] = layer
            _tree_insert(tree, list(comps), leaf)
        info["file tree"] = tree
        top["piece layers"] = layers
        if single is not None and (v2_single_length and version == 2):
            info["length"] = len(single[1])

    if version == 1:
        if single is not None:
            info["length"] = len(single[1])
            info["pieces"] = v1_pieces(single[1], pl)
        else:
            order = list(files)
            if v1_order is not None:
                bypath = {tuple(c): d for c, d in files}
                order = [(tuple(p), bypath[tuple(p)]) for p in v1_order]
            entries, stream = [], bytearray()
            for idx, (comps, data) in enumerate(order):
                entries.append({"length": len(data), "path": list(comps)})
                stream += data
                if pad and idx + 1 < len(order):
                    gap = (-len(stream)) % pl
                    if gap:
                        entries.append({"attr": "p", "length": gap,
                                        "path": [".pad", str(gap)]})
                        stream += bytes(gap)
            info["files"] = entries
            info["pieces"] = v1_pieces(bytes(stream), pl)
    elif version == 3:
        if single is not None:
            info["length"] = len(single[1])
            info["pieces"] = v1_pieces(single[1], pl)
        else:
            entries, stream = [], bytearray()
            for idx, (comps, data) in enumerate(flist):
                entries.append({"length": len(data), "path": list(comps)})
                stream += data
                last = idx + 1 == len(flist)
                gap = (-len(stream)) % pl
                if gap and (not last or trailing_pad):
                    entries.append({"attr": "p", "length": gap,
                                    "path": [".pad", str(gap)]})
                    stream += bytes(gap)
            info["files"] = entries
            info["pieces"] = v1_pieces(bytes(stream), pl)
    return rb.encode(top)


# ---------------------------------------------------------------------------
def meta_version(info):
    """info: rb.Node of the info dict."""
    if b"meta version" in info:
        return 3 if b"pieces" in info else 2
    return 1


def v2_leaves(tree_node, prefix=()):
    """Yield (path_components(bytes), leaf_node) in raw order."""
    for key, _, val in tree_node.value:
        if val.kind != "dict":
            continue
        leaf = val.get(b"")
        if leaf is not None and leaf.kind == "dict":
            yield prefix + (key,), leaf
        else:
            yield from v2_leaves(val, prefix + (key,))


def v1_entries(info):
    """[(components(bytes) or None for single, length, is_pad)]"""
    if b"files" in info:
        out = []
        for f in info.get(b"files").value:
            comps = tuple(c.value for c in f.get(b"path").value)
            attr = f.get(b"attr")
            is_pad = attr is not None and b"p" in attr.value
            out.append((comps, f.get(b"length").value, is_pad))
        return out
    return [(None, info.get(b"length").value, False)]


def _read(path, length):
    """On-disk bytes of one listed file, absent data read as zeros, cut to length."""
    try:
        with open(path, "rb") as fd:
            data = fd.read(length)
    except (FileNotFoundError, IsADirectoryError, NotADirectoryError):
        data = b""
    return data + bytes(length - len(data))


def _piece_hash_v2(data, idx, pl, file_len):
    """Merkle hash of piece idx of a file of file_len > pl bytes (data is the
    zero-extended on-disk content)."""
    chunk = data[idx * pl:(idx + 1) * pl]
    leaves = [sha256(chunk[o:o + BLOCK]).digest() for o in range(0, len(chunk), BLOCK)]
    leaves += [bytes(32)] * (pl // BLOCK - len(leaves))
    while len(leaves) > 1:
        leaves = [sha256(leaves[i] + leaves[i + 1]).digest() for i in range(0, len(leaves), 2)]
    return leaves[0]


def recheck(meta_bytes, root):
    """Reference recheck.  root = path of the payload (file or directory named
    info.name).  Returns dict(verdicts=[(ok, size)], fraction=Fraction|None,
    version=int)."""
    top, _ = rb.decode(meta_bytes)
    info = top.get(b"info")
    pl = info.get(b"piece length").value
    ver = meta_version(info)
    verdicts = []
    if ver == 1:
        stream = bytearray()
        for comps, length, is_pad in v1_entries(info):
            if comps is None:
                p = root
            else:
                p = os.path.join(root, *[c.decode("utf-8", "surrogateescape") for c in comps])
            stream += _read(p, length)
        pieces = info.get(b"pieces").value
        for i, off in enumerate(range(0, len(stream), pl)):
            chunk = bytes(stream[off:off + pl])
            verdicts.append((sha1(chunk).digest() == pieces[20 * i:20 * i + 20], len(chunk)))
    else:
        layers = top.get(b"piece layers")
        lay = {k: v.value for k, _, v in layers.value} if layers is not None else {}
        tree = info.get(b"file tree")
        leaves = list(v2_leaves(tree))
        single = len(leaves) == 1 and len(leaves[0][0]) == 1 and \
            leaves[0][0][0] == info.get(b"name").value and not os.path.isdir(root)
        for comps, leaf in leaves:
            length = leaf.get(b"length").value
            if length == 0:
                continue
            proot = leaf.get(b"pieces root").value
            if single:
                p = root
            else:
                p = os.path.join(root, *[c.decode("utf-8", "surrogateescape") for c in comps])
            data = _read(p, length)
            if length <= pl:
                verdicts.append((bep52(data, pl)[0] == proot, length))
            else:
                rec = lay.get(proot, b"")
                n = -(-length // pl)
                for i in range(n):
                    size = min(pl, length - i * pl)
                    verdicts.append((_piece_hash_v2(data, i, pl, length) == rec[32 * i:32 * i + 32], size))
    tot = sum(s for _, s in verdicts)
    frac = Fraction(100 * sum(s for ok, s in verdicts if ok), tot) if tot else None
    return {"verdicts": verdicts, "fraction": frac, "version": ver}
