"""Reference hashing: BEP 3 piece strings and BEP 52 merkle trees (two
independent formulations that must agree)."""
from hashlib import sha1, sha256

BLOCK = 16384


# --------------------------------------------------------------------- BEP 3
def v1_pieces(stream: bytes, pl: int) -> bytes:
    out = bytearray()
    for off in range(0, len(stream), pl):
        out += sha1(stream[off:off + pl]).digest()
    return bytes(out)


def v1_piece_list(stream: bytes, pl: int):
    return [sha1(stream[off:off + pl]).digest() for off in range(0, len(stream), pl)]


# -------------------------------------------------------------------- BEP 52
def _ceil_pow2(n):
    p = 1
    while p < n:
        p <<= 1
    return p


_ZERO = [bytes(32)]


def zero_hash(h):
    """Root of an all-padding subtree of height h (h=0: a leaf = 32 zero bytes)."""
    while len(_ZERO) <= h:
        _ZERO.append(sha256(_ZERO[-1] + _ZERO[-1]).digest())
    return _ZERO[h]


def _reduce(layer):
    assert len(layer) & (len(layer) - 1) == 0 and layer
    while len(layer) > 1:
        layer = [sha256(layer[i] + layer[i + 1]).digest() for i in range(0, len(layer), 2)]
    return layer[0]


def bep52_A(data: bytes, pl: int):
    """Formulation A (bottom-up).  Returns (root, piece_layer_bytes_or_None).
    piece layer returned for every non-empty file (caller decides whether it
    belongs in 'piece layers': only when len(data) > pl)."""
    assert data, "empty files have no root"
    bpp = pl // BLOCK
    leaves = [sha256(data[o:o + BLOCK]).digest() for o in range(0, len(data), BLOCK)]
    if len(data) <= pl:
        n = _ceil_pow2(len(leaves))
        leaves += [bytes(32)] * (n - len(leaves))
        root = _reduce(leaves)
        return root, root
    pieces = []
    for i in range(0, len(leaves), bpp):
        chunk = leaves[i:i + bpp]
        chunk += [bytes(32)] * (bpp - len(chunk))
        pieces.append(_reduce(chunk))
    layer = b"".join(pieces)
    h = bpp.bit_length() - 1
    n = _ceil_pow2(len(pieces))
    pieces = pieces + [zero_hash(h)] * (n - len(pieces))
    return _reduce(pieces), layer


def bep52_B(data: bytes, pl: int):
    """Formulation B (top-down recursion over the virtual full tree)."""
    assert data
    size = len(data)
    bpp = pl // BLOCK
    nblocks = -(-size // BLOCK)
    if size > pl:
        npieces = -(-size // pl)
        total_leaves = bpp * _ceil_pow2(npieces)
    else:
        total_leaves = _ceil_pow2(nblocks)
    height = total_leaves.bit_length() - 1
    piece_h = bpp.bit_length() - 1
    layer = {}

    def node(h, i):
        first = i << h                      # first leaf index covered
        if first >= nblocks:
            return zero_hash(h)
        if h == 0:
            r = sha256(data[first * BLOCK:(first + 1) * BLOCK]).digest()
        else:
            r = sha256(node(h - 1, 2 * i) + node(h - 1, 2 * i + 1)).digest()
        if h == piece_h:
            layer[i] = r
        return r

    root = node(height, 0)
    if size > pl:
        lay = b"".join(layer[i] for i in sorted(layer))
    else:
        lay = root
    return root, lay


def bep52(data: bytes, pl: int):
    a = bep52_A(data, pl)
    b = bep52_B(data, pl)
    if a != b:
        raise AssertionError("reference formulations disagree")
    return a


def selftest():
    import random
    r = random.Random(1)
    n = 0
    for pl in (16384, 32768, 65536, 131072):
        for size in [1, 2, 16383, 16384, 16385, 32767, 32768, 32769, 49152, 49153,
                     pl - 1, pl, pl + 1, 2 * pl - 1, 2 * pl, 2 * pl + 1, 3 * pl,
                     3 * pl + 1, 4 * pl, 5 * pl - 1, 5 * pl + 16385, 7 * pl + 3]:
            data = r.randbytes(size)
            bep52(data, pl)
            n += 1
    # fixed vector: one block file -> root == sha256(block)
    d = b"x" * 100
    assert bep52(d, 16384)[0] == sha256(d).digest()
    # two blocks
    d = bytes(range(256)) * 100  # 25600 bytes
    assert bep52(d, 16384)[0] == sha256(sha256(d[:16384]).digest() + sha256(d[16384:]).digest()).digest()
    # three pieces of one block: root = H(H(p0,p1),H(p2,Z0))
    d = r.randbytes(16384 * 2 + 5)
    p = [sha256(d[i:i + 16384]).digest() for i in range(0, len(d), 16384)]
    exp = sha256(sha256(p[0] + p[1]).digest() + sha256(p[2] + bytes(32)).digest()).digest()
    root, layer = bep52(d, 16384)
    assert root == exp and layer == b"".join(p)
    # pl = 2 blocks, 3 blocks of data: pieces: H(b0,b1), H(b2,0); root H(p0,p1)
    d = r.randbytes(16384 * 2 + 7)
    b = [sha256(d[i:i + 16384]).digest() for i in range(0, len(d), 16384)]
    p0 = sha256(b[0] + b[1]).digest()
    p1 = sha256(b[2] + bytes(32)).digest()
    root, layer = bep52(d, 32768)
    assert layer == p0 + p1 and root == sha256(p0 + p1).digest()
    # 3 pieces with pl = 2 blocks: pad piece is H(0,0)
    d = r.randbytes(32768 * 2 + 9)
    b = [sha256(d[i:i + 16384]).digest() for i in range(0, len(d), 16384)]
    p0 = sha256(b[0] + b[1]).digest()
    p1 = sha256(b[2] + b[3]).digest()
    p2 = sha256(b[4] + bytes(32)).digest()
    z = sha256(bytes(64)).digest()
    root, layer = bep52(d, 32768)
    assert layer == p0 + p1 + p2
    assert root == sha256(sha256(p0 + p1).digest() + sha256(p2 + z).digest()).digest()
    return n + 5
