"""Reference bencode decoder (byte exact, with raw spans and canonicity
diagnostics) and canonical encoder.  Independent of pyben.

decode(data) -> (Node, diagnostics)
  Node.kind in {"int","str","list","dict"}; Node.start/Node.end = raw span;
  Node.value: int | bytes | [Node] | [(key_bytes, key_node, value_node)] (raw order,
  duplicates kept).
Diagnostics are strings; an empty list means the input is canonical bencoding
followed by nothing.  Hard syntax errors (cannot continue) raise BencodeError.
"""


class BencodeError(Exception):
    pass


class Node:
    __slots__ = ("kind", "value", "start", "end")

    def __init__(self, kind, value, start, end):
        self.kind, self.value, self.start, self.end = kind, value, start, end

    # convenience for dict nodes -------------------------------------------
    def keys(self):
        return [k for k, _, _ in self.value]

    def get(self, key, default=None):
        """Last value wins is NOT assumed: returns the first occurrence."""
        if isinstance(key, str):
            key = key.encode()
        for k, _, v in self.value:
            if k == key:
                return v
        return default

    def __contains__(self, key):
        return self.get(key) is not None

    def py(self):
        """Plain python value (bytes for strings, dict keyed by bytes; last
        duplicate wins like most decoders)."""
        if self.kind in ("int", "str"):
            return self.value
        if self.kind == "list":
            return [n.py() for n in self.value]
        return {k: v.py() for k, _, v in self.value}


def decode(data, strict_path=""):
    data = bytes(data)
    diags = []
    node, pos = _decode(data, 0, diags, "")
    if pos != len(data):
        diags.append(f"trailing-bytes:{len(data) - pos}")
    return node, diags


def _decode(data, pos, diags, where):
    if pos >= len(data):
        raise BencodeError(f"unexpected end at {pos} ({where})")
    c = data[pos:pos + 1]
    if c == b"i":
        end = data.find(b"e", pos)
        if end < 0:
            raise BencodeError(f"unterminated int at {pos}")
        body = data[pos + 1:end]
        txt = body.decode("latin-1")
        digits = txt[1:] if txt.startswith("-") else txt
        if not digits or not all("0" <= ch <= "9" for ch in digits):
            raise BencodeError(f"bad int {body!r} at {pos}")
        if len(digits) > 1 and digits[0] == "0":
            diags.append(f"int-leading-zero@{where}")
        if txt.startswith("-") and int(digits) == 0:
            diags.append(f"int-negative-zero@{where}")
        return Node("int", int(txt), pos, end + 1), end + 1
    if b"0" <= c <= b"9":
        colon = data.find(b":", pos)
        if colon < 0:
            raise BencodeError(f"bad string length at {pos}")
        ltxt = data[pos:colon].decode("latin-1")
        if not all("0" <= ch <= "9" for ch in ltxt):
            raise BencodeError(f"bad string length {ltxt!r} at {pos}")
        if len(ltxt) > 1 and ltxt[0] == "0":
            diags.append(f"strlen-leading-zero@{where}")
        n = int(ltxt)
        end = colon + 1 + n
        if end > len(data):
            raise BencodeError(f"truncated string at {pos}")
        return Node("str", data[colon + 1:end], pos, end), end
    if c == b"l":
        items = []
        p = pos + 1
        while True:
            if p >= len(data):
                raise BencodeError(f"unterminated list at {pos}")
            if data[p:p + 1] == b"e":
                return Node("list", items, pos, p + 1), p + 1
            node, p = _decode(data, p, diags, f"{where}[{len(items)}]")
            items.append(node)
    if c == b"d":
        items = []
        p = pos + 1
        prev = None
        seen = set()
        while True:
            if p >= len(data):
                raise BencodeError(f"unterminated dict at {pos}")
            if data[p:p + 1] == b"e":
                return Node("dict", items, pos, p + 1), p + 1
            knode, p = _decode(data, p, diags, f"{where}.<key>")
            if knode.kind != "str":
                raise BencodeError(f"non-string dict key at {knode.start}")
            key = knode.value
            kdesc = key[:24].hex() if not _printable(key) else key.decode("latin-1")
            if key in seen:
                diags.append(f"dup-key:{kdesc}@{where}")
            elif prev is not None and key < prev:
                diags.append(f"unsorted-key:{kdesc}@{where}")
            seen.add(key)
            prev = key if prev is None or key > prev else prev
            vnode, p = _decode(data, p, diags, f"{where}.{kdesc}")
            items.append((key, knode, vnode))
    raise BencodeError(f"bad type byte {c!r} at {pos}")


def _printable(b):
    return all(32 <= x < 127 for x in b)


# ---------------------------------------------------------------------------
def encode(obj):
    """Canonical encoder: dict keys (str or bytes) sorted by raw bytes."""
    out = bytearray()
    _encode(obj, out)
    return bytes(out)


def _b(x):
    return x.encode("utf-8") if isinstance(x, str) else bytes(x)


def _encode(obj, out):
    if isinstance(obj, bool):
        out += b"i%de" % int(obj)
    elif isinstance(obj, int):
        out += b"i%de" % obj
    elif isinstance(obj, (bytes, bytearray, str)):
        b = _b(obj)
        out += b"%d:" % len(b)
        out += b
    elif isinstance(obj, (list, tuple)):
        out += b"l"
        for x in obj:
            _encode(x, out)
        out += b"e"
    elif isinstance(obj, dict):
        out += b"d"
        items = sorted(((_b(k), v) for k, v in obj.items()), key=lambda kv: kv[0])
        for k, v in items:
            _encode(k, out)
            _encode(v, out)
        out += b"e"
    else:
        raise TypeError(type(obj))


def info_span(data):
    """(start, end) raw span of the top-level 'info' value, decoding leniently."""
    node, _ = decode(data)
    if node.kind != "dict":
        raise BencodeError("top level is not a dict")
    info = node.get(b"info")
    if info is None:
        raise BencodeError("no info key")
    return info.start, info.end
