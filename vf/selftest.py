#!/venv/bin/python -B
"""setup_cmd: self-tests of the reference models (no repository code involved
except an import check)."""
import os
import sys

sys.path.insert(0, os.path.dirname(os.path.dirname(os.path.abspath(__file__))))
sys.dont_write_bytecode = True

from vf.ref import bencode as rb, hashing, torrent as rt  # noqa: E402


def main():
    n = hashing.selftest()
    # strict decoder accept / reject table
    ok = [b"de", b"d1:ai1e1:bi2ee", b"li0ei-1e0:e", b"d1:ad1:b0:ee", b"i0e", b"3:abc"]
    for raw in ok:
        _, d = rb.decode(raw)
        assert d == [], (raw, d)
    bad = {b"d1:bi1e1:ai2ee": "unsorted-key", b"d1:ai1e1:ai2ee": "dup-key", b"i01e": "int-leading-zero",
           b"i-0e": "int-negative-zero", b"03:abc": "strlen-leading-zero", b"dee": "trailing-bytes",
           b"d1:ad1:z0:1:a0:ee": "unsorted-key"}
    for raw, want in bad.items():
        _, d = rb.decode(raw)
        assert any(x.startswith(want) for x in d), (raw, d)
    for raw in (b"d1:a", b"i1", b"5:ab", b"x", b"di1e1:ae", b"l"):
        try:
            rb.decode(raw)
        except rb.BencodeError:
            continue
        raise AssertionError(raw)
    # canonical encoder round trip through the strict decoder
    files = [(("b", "x"), b"\x01" * 40000), (("a",), b"\x02" * 5), (("c",), b""), (("b", "a"), b"\x03" * 16384)]
    for ver in (1, 2, 3):
        for kw in ({}, {"pad": True} if ver == 1 else {"trailing_pad": True}):
            raw = rt.build("T", files=files, pl=16384, version=ver, announce="u", url_list=["w"], **kw)
            top, d = rb.decode(raw)
            assert d == [], d
            assert rb.encode(top.py()) == raw
        raw = rt.build("f", single=("f", b"\x05" * 50000), pl=16384, version=ver)
        top, d = rb.decode(raw)
        assert d == [] and rb.encode(top.py()) == raw
    print(f"selftest ok: {n} merkle vectors (A == B), bencode table, encoder round trip")
    return 0


if __name__ == "__main__":
    sys.exit(main())
